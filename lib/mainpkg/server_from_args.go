package main

// Shared by the harnesses that are compiled into cmd/gostatsd (harness.json "main_pkg"): builds a
// statsd.Server exactly as the gostatsd command does - command line and configuration file through
// setupConfiguration and constructServer.

import (
	"fmt"
	"io"
	"os"
	"sort"
	"strconv"
	"strings"
	"time"

	"github.com/sirupsen/logrus"

	"github.com/atlassian/gostatsd/pkg/statsd"
)

func init() { logrus.SetOutput(io.Discard) }

var verifServers = map[string]*statsd.Server{}

// verifServer returns the server for the given extra arguments and [disabled-sub-metrics] table (cached).
func verifServer(args []string, disabled map[string]bool) *statsd.Server {
	var keys []string
	for k, v := range disabled {
		if v {
			keys = append(keys, k)
		}
	}
	sort.Strings(keys)
	ck := strings.Join(args, "\x00") + "\x01" + strings.Join(keys, ",")
	if s := verifServers[ck]; s != nil {
		return s
	}
	full := append([]string{"gostatsd", "--backends=null"}, args...)
	if len(keys) > 0 {
		path := fmt.Sprintf("verif-config-%d-%d.toml", os.Getpid(), len(verifServers))
		var b strings.Builder
		b.WriteString("[disabled-sub-metrics]\n")
		for _, k := range keys {
			if k == "stddev" {
				// the reader looks the standard deviation up under "stddev" (its default is registered as "std")
			}
			fmt.Fprintf(&b, "%s = true\n", k)
		}
		if err := os.WriteFile(path, []byte(b.String()), 0o600); err != nil {
			panic(err)
		}
		defer os.Remove(path)
		full = append(full, "--config-path="+path)
	}
	old := os.Args
	os.Args = full
	v, _, err := setupConfiguration()
	os.Args = old
	if err != nil {
		panic(fmt.Sprintf("setupConfiguration %q: %v", full, err))
	}
	s, err := constructServer(v)
	if err != nil {
		panic(fmt.Sprintf("constructServer %q: %v", full, err))
	}
	verifServers[ck] = s
	return s
}

// verifPctArg renders a percentile list as the --percent-threshold flag does (space separated).
func verifPctArg(pcts []float64) string {
	var p []string
	for _, x := range pcts {
		p = append(p, strconv.FormatFloat(x, 'g', -1, 64))
	}
	return "--percent-threshold=" + strings.Join(p, " ")
}

func verifDur(name string, d time.Duration) string { return "--" + name + "=" + d.String() }
