// Package bk builds every bundled backend around fake transports: a fake http.RoundTripper set on the
// transport pool's client, a fake dialer/net.Conn for the socket backends, a fake CloudWatch API.
// What each fake answers is decided by a pluggable function (constant in sequential harnesses, an
// enumerated choice under the scheduler).
package bk

import (
	"bytes"
	"compress/gzip"
	"compress/zlib"
	"context"
	"errors"
	"fmt"
	"io"
	"net"
	"net/http"
	"os"
	"strings"
	"time"

	aws_cw "github.com/aws/aws-sdk-go-v2/service/cloudwatch"
	"github.com/spf13/viper"

	"github.com/atlassian/gostatsd"
	"github.com/atlassian/gostatsd/internal/verif/lib/fx"
	"github.com/atlassian/gostatsd/pkg/backends/cloudwatch"
	"github.com/atlassian/gostatsd/pkg/backends/datadog"
	"github.com/atlassian/gostatsd/pkg/backends/graphite"
	"github.com/atlassian/gostatsd/pkg/backends/influxdb"
	"github.com/atlassian/gostatsd/pkg/backends/newrelic"
	"github.com/atlassian/gostatsd/pkg/backends/null"
	"github.com/atlassian/gostatsd/pkg/backends/otlp"
	"github.com/atlassian/gostatsd/pkg/backends/statsdaemon"
	"github.com/atlassian/gostatsd/pkg/backends/stdout"
	"github.com/atlassian/gostatsd/pkg/transport"
)

// Kinds lists every backend variant the harnesses know.
var Kinds = []string{"datadog", "influxdb1", "influxdb2", "newrelic-infra", "newrelic-insights", "newrelic-metrics", "otlp-gauge", "otlp-histogram",
	"graphite-tags", "graphite-basic", "graphite-legacy", "statsdaemon-udp", "statsdaemon-tcp", "cloudwatch", "stdout", "null"}

type Opts struct {
	BatchSize    int // metrics per batch (0 = backend default)
	MaxRequests  int // 0 = 2
	MaxElapsed   time.Duration
	ZeroElapsed  bool // the retry window is configured as 0 (explicitly), whatever MaxElapsed says
	Compress     bool
	Disabled     map[string]bool // disabled-sub-metrics keys
	DisableTags  bool            // statsdaemon
	ResourceKeys []string        // otlp
	MaxRetries   int             // otlp (default 3; -1 = 0)
	TagPrefix    string          // newrelic
}

// Request is one captured HTTP request.
type Request struct {
	URL     string
	Header  http.Header
	Body    []byte // decompressed
	RawLen  int
	Attempt int
	// Malformed: the declared Content-Length did not match the body (the fake refused it like the real transport)
	Malformed bool
}

// HTTPAnswer is what the fake upstream answers to one attempt.
type HTTPAnswer struct {
	Status int
	Err    error
	Header http.Header
	Body   []byte
}

type FakeRT struct {
	Requests []Request
	Decide   func(r *Request) HTTPAnswer // nil = 200 OK
}

func (f *FakeRT) RoundTrip(req *http.Request) (*http.Response, error) {
	var raw []byte
	if req.Body != nil {
		raw, _ = io.ReadAll(req.Body)
		req.Body.Close()
	}
	body := raw
	switch req.Header.Get("Content-Encoding") {
	case "deflate":
		if zr, err := zlib.NewReader(bytes.NewReader(raw)); err == nil {
			body, _ = io.ReadAll(zr)
		}
	case "gzip":
		if zr, err := gzip.NewReader(bytes.NewReader(raw)); err == nil {
			body, _ = io.ReadAll(zr)
		}
	}
	r := Request{URL: req.URL.String(), Header: req.Header.Clone(), Body: body, RawLen: len(raw), Attempt: len(f.Requests)}
	if req.ContentLength > 0 && int64(len(raw)) != req.ContentLength {
		// what net/http's transport does when a request is re-sent with its body already consumed
		r.Malformed = true
		f.Requests = append(f.Requests, r)
		return nil, fmt.Errorf("http: ContentLength=%d with Body length %d", req.ContentLength, len(raw))
	}
	f.Requests = append(f.Requests, r)
	a := HTTPAnswer{Status: 200}
	if f.Decide != nil {
		a = f.Decide(&f.Requests[len(f.Requests)-1])
	}
	if a.Err != nil {
		return nil, a.Err
	}
	h := a.Header
	if h == nil {
		h = http.Header{}
	}
	return &http.Response{StatusCode: a.Status, Status: fmt.Sprint(a.Status), Header: h, Body: io.NopCloser(bytes.NewReader(a.Body)), Request: req, ProtoMajor: 1, ProtoMinor: 1}, nil
}

// FakeNet is a dialer whose connections record what is written.
type FakeNet struct {
	Dials    int
	Writes   [][]byte
	WriteOK  []bool                      // per write: it was accepted by the peer (no error, no stall)
	DialErr  func(n int) error           // nil = always connect
	WriteErr func(n int, b []byte) error // nil = always ok; n = index of the write
	// Stall (optional): the peer has stopped reading and this write does not make progress. It then ends the way a
	// socket write does: with a timeout error when the connection's write deadline passes, never if none was set.
	// Wait blocks the calling thread until the given instant (for ever for the zero time); the harness provides it.
	Stall func(n int) bool
	Wait  func(until time.Time)
	// Delay (optional, with Now and Wait): the peer is healthy but slow, this write takes that long. It is accepted when
	// it ends before the connection's write deadline (or none was set) and ends with a timeout error at the deadline
	// otherwise, the way a socket write does.
	Delay  func(n int) time.Duration
	Now    func() time.Time
	Closed int
}

type fakeConn struct {
	n        *FakeNet
	deadline time.Time // write deadline of this connection (zero: none)
}

// ErrWriteTimeout is what a socket write returns when its deadline passes: a net.Error whose Timeout() is true and that
// is os.ErrDeadlineExceeded for errors.Is.
var ErrWriteTimeout error = writeTimeout{}

type writeTimeout struct{}

func (writeTimeout) Error() string        { return "write tcp 10.0.0.1:1->10.0.0.2:2003: i/o timeout" }
func (writeTimeout) Timeout() bool        { return true }
func (writeTimeout) Temporary() bool      { return true }
func (writeTimeout) Is(target error) bool { return target == os.ErrDeadlineExceeded }

func (c *fakeConn) Read(b []byte) (int, error) { return 0, io.EOF }
func (c *fakeConn) Write(b []byte) (int, error) {
	i := len(c.n.Writes)
	c.n.Writes = append(c.n.Writes, append([]byte{}, b...))
	c.n.WriteOK = append(c.n.WriteOK, false)
	if c.n.Stall != nil && c.n.Stall(i) {
		c.n.Wait(c.deadline)
		return 0, ErrWriteTimeout
	}
	if c.n.Delay != nil {
		if d := c.n.Delay(i); d > 0 {
			end := c.n.Now().Add(d)
			if !c.deadline.IsZero() && end.After(c.deadline) {
				c.n.Wait(c.deadline)
				return 0, ErrWriteTimeout
			}
			c.n.Wait(end)
		}
	}
	if c.n.WriteErr != nil {
		if err := c.n.WriteErr(i, b); err != nil {
			return 0, err
		}
	}
	c.n.WriteOK[i] = true
	return len(b), nil
}
func (c *fakeConn) Close() error                       { c.n.Closed++; return nil }
func (c *fakeConn) LocalAddr() net.Addr                { return &net.TCPAddr{} }
func (c *fakeConn) RemoteAddr() net.Addr               { return &net.TCPAddr{} }
func (c *fakeConn) SetDeadline(t time.Time) error      { c.deadline = t; return nil }
func (c *fakeConn) SetReadDeadline(t time.Time) error  { return nil }
func (c *fakeConn) SetWriteDeadline(t time.Time) error { c.deadline = t; return nil }

func (n *FakeNet) Dial() (net.Conn, error) {
	i := n.Dials
	n.Dials++
	if n.DialErr != nil {
		if err := n.DialErr(i); err != nil {
			return nil, err
		}
	}
	return &fakeConn{n: n}, nil
}

// FakeCW is a fake CloudWatch API.
type FakeCW struct {
	Calls []*aws_cw.PutMetricDataInput
	Err   func(n int) error
}

func (f *FakeCW) PutMetricData(ctx context.Context, in *aws_cw.PutMetricDataInput, _ ...func(*aws_cw.Options)) (*aws_cw.PutMetricDataOutput, error) {
	i := len(f.Calls)
	f.Calls = append(f.Calls, in)
	if f.Err != nil {
		if err := f.Err(i); err != nil {
			return nil, err
		}
	}
	return &aws_cw.PutMetricDataOutput{}, nil
}

// Env holds the fakes of one backend instance.
type Env struct {
	RT  *FakeRT
	Net *FakeNet
	CW  *FakeCW
}

type runner interface{ Run(context.Context) }

// Built is a constructed backend with its environment.
type Built struct {
	Kind    string
	Backend gostatsd.Backend
	Env     *Env
	Run     func(context.Context) // nil if the backend has no Run
}

var ErrRefused = errors.New("connection refused")

// New constructs backend kind with the given options.
func New(kind string, o Opts) (*Built, error) {
	v := viper.New()
	logger := fx.Quiet()
	env := &Env{RT: &FakeRT{}, Net: &FakeNet{}, CW: &FakeCW{}}
	pool := transport.NewTransportPool(logger, v)
	hc, err := pool.Get("default")
	if err != nil {
		return nil, err
	}
	hc.Client.Transport = env.RT
	hc.Client.Timeout = 0
	for k, d := range o.Disabled {
		v.Set("disabled-sub-metrics."+k, d)
	}
	maxReq := o.MaxRequests
	if maxReq == 0 {
		maxReq = 2
	}
	elapsed := o.MaxElapsed
	if elapsed == 0 {
		elapsed = 15 * time.Second
	}
	if o.ZeroElapsed {
		elapsed = 0
	}
	var b gostatsd.Backend
	base := strings.SplitN(kind, "-", 2)[0]
	switch {
	case kind == "datadog":
		v.Set("datadog.api_key", "k")
		v.Set("datadog.api_endpoint", "http://dd.invalid")
		v.Set("datadog.max_requests", maxReq)
		v.Set("datadog.compress_payload", o.Compress)
		v.Set("datadog.max_request_elapsed_time", elapsed)
		if o.BatchSize > 0 {
			v.Set("datadog.metrics_per_batch", o.BatchSize)
		}
		v.Set("flush-interval", time.Second)
		b, err = datadog.NewClientFromViper(v, logger, pool)
	case base == "influxdb1" || base == "influxdb2":
		v.Set("influxdb.api-endpoint", "http://influx.invalid")
		if kind == "influxdb1" {
			v.Set("influxdb.api-version", 1)
			v.Set("influxdb.database", "db")
		} else {
			v.Set("influxdb.api-version", 2)
			v.Set("influxdb.bucket", "b")
			v.Set("influxdb.org", "o")
		}
		v.Set("influxdb.max-requests", maxReq)
		v.Set("influxdb.compress-payload", o.Compress)
		v.Set("influxdb.max-request-elapsed-time", elapsed)
		if o.BatchSize > 0 {
			v.Set("influxdb.metrics-per-batch", o.BatchSize)
		}
		b, err = influxdb.NewClientFromViper(v, logger, pool)
	case base == "newrelic":
		ft := strings.TrimPrefix(kind, "newrelic-")
		v.Set("newrelic.flush-type", ft)
		v.Set("newrelic.address", "http://nr.invalid/v1/data")
		v.Set("newrelic.address-metrics", "http://nr.invalid/metric/v1")
		if ft != "infra" {
			v.Set("newrelic.api-key", "key")
		}
		v.Set("newrelic.max-requests", maxReq)
		v.Set("newrelic.max-request-elapsed-time", elapsed)
		if o.BatchSize > 0 {
			v.Set("newrelic.metrics-per-batch", o.BatchSize)
		}
		if o.TagPrefix != "" {
			v.Set("newrelic.tag-prefix", o.TagPrefix)
		}
		b, err = newrelic.NewClientFromViper(v, logger, pool)
	case base == "otlp":
		v.Set("otlp.metrics_endpoint", "http://otlp.invalid/v1/metrics")
		v.Set("otlp.logs_endpoint", "http://otlp.invalid/v1/logs")
		v.Set("otlp.max_requests", maxReq)
		v.Set("otlp.compress_payload", o.Compress)
		v.Set("otlp.max_request_elapsed_time", elapsed)
		if o.MaxRetries != 0 {
			r := o.MaxRetries
			if r < 0 {
				r = 0
			}
			v.Set("otlp.max_retries", r)
		}
		if o.BatchSize > 0 {
			v.Set("otlp.metrics_per_batch", o.BatchSize)
		}
		if len(o.ResourceKeys) > 0 {
			v.Set("otlp.resource_keys", o.ResourceKeys)
		}
		if kind == "otlp-histogram" {
			v.Set("otlp.conversion", "AsHistogram")
		}
		for k, d := range o.Disabled {
			// mapstructure matches the TimerSubtypes field names case-insensitively (CountPerSecond, SumSquares, StdDev ...)
			v.Set("otlp.disabled_timer_aggregations."+strings.ReplaceAll(k, "-", ""), d)
		}
		b, err = otlp.NewClientFromViper(v, logger, pool)
	case base == "graphite":
		v.Set("graphite.mode", strings.TrimPrefix(kind, "graphite-"))
		b, err = graphite.NewClientFromViper(v, logger, pool)
		if err == nil {
			b.(*graphite.Client).VerifSetConnFactory(env.Net.Dial)
		}
	case base == "statsdaemon":
		v.Set("statsdaemon.address", "sd.invalid:8125")
		v.Set("statsdaemon.tcp_transport", kind == "statsdaemon-tcp")
		v.Set("statsdaemon.disable_tags", o.DisableTags)
		b, err = statsdaemon.NewClientFromViper(v, logger, pool)
		if err == nil {
			b.(*statsdaemon.Client).VerifSetConnFactory(env.Net.Dial)
		}
	case kind == "cloudwatch":
		b = cloudwatch.VerifNewClient(env.CW, "StatsD", gostatsd.DisabledSubMetrics(v), logger)
	case kind == "stdout":
		b, err = stdout.NewClientFromViper(v, logger, pool)
	case kind == "null":
		b, err = null.NewClientFromViper(v, logger, pool)
	default:
		return nil, fmt.Errorf("unknown backend kind %q", kind)
	}
	if err != nil {
		return nil, fmt.Errorf("%s: %w", kind, err)
	}
	bt := &Built{Kind: kind, Backend: b, Env: env}
	if r, ok := b.(runner); ok {
		bt.Run = r.Run
	}
	return bt, nil
}
