package fx

import (
	"fmt"
	"net/http"

	"github.com/spf13/viper"

	"github.com/atlassian/gostatsd"
	"github.com/atlassian/gostatsd/pkg/web"
)

// IngestionRouter builds an HTTP server with the ingestion endpoints enabled the way the server does - from
// the http-servers / http.<name>.* configuration keys - and returns its router.
func IngestionRouter(handler gostatsd.PipelineHandler, name string) (http.Handler, error) {
	v := viper.New()
	v.Set("http-servers", []string{name})
	v.Set("http", map[string]any{name: map[string]any{"address": "127.0.0.1:0", "enable-ingestion": true, "enable-healthcheck": false, "enable-prof": false, "enable-expvar": false}})
	srvs, err := web.NewHttpServersFromViper(v, Quiet(), handler, nil, nil)
	if err != nil {
		return nil, err
	}
	if len(srvs) != 1 {
		return nil, fmt.Errorf("%d http servers built from a configuration naming one", len(srvs))
	}
	return srvs[0].Router, nil
}
