// Package fx holds fixtures shared by the harnesses: canonical snapshots of metric maps, a quiet
// logger, the per-execution mock clock.
package fx

import (
	"context"
	"fmt"
	"io"
	"math"
	"sort"
	"strings"
	"time"

	"github.com/sirupsen/logrus"
	"github.com/tilinna/clock"

	"github.com/atlassian/gostatsd"
	"github.com/atlassian/gostatsd/internal/verif/vsched"
	"github.com/atlassian/gostatsd/internal/verif/vtime"
	"github.com/atlassian/gostatsd/pkg/stats"
)

func init() {
	logrus.SetOutput(io.Discard)
	logrus.SetLevel(logrus.PanicLevel)
}

// Quiet returns a logger that discards everything.
func Quiet() *logrus.Logger {
	l := logrus.New()
	l.SetOutput(io.Discard)
	l.SetLevel(logrus.PanicLevel)
	return l
}

// Epoch is the start time of every mock clock (an aligned, round instant).
var Epoch = time.Unix(1_700_000_000, 0)

// NewClock creates the mock clock of the current execution and registers it for vtime.
func NewClock(ctx context.Context) (context.Context, *clock.Mock) {
	m := clock.NewMock(Epoch)
	w := vtime.Wrap(m)
	vsched.EnvSet("clock", w)
	// a fresh statser per execution: the package-level default NullStatser carries a flush-notifier
	// (lock + registered channels) that would otherwise leak state from one execution into the next
	ctx = stats.NewContext(ctx, stats.NewNullStatser())
	return clock.Context(ctx, w), m
}

// Series is the canonical form of one aggregated series.
type Series struct {
	Type    string
	Name    string
	TagsKey string
	Source  string
	Tags    []string
	Count   int64     // counters
	Gauge   float64   // gauges
	Values  []float64 // timers (sorted)
	Sampled float64
	Members []string // sets (sorted)
	TS      int64
}

func (s Series) Key() string { return s.Type + "|" + s.Name + "|" + s.TagsKey }

// Snapshot deep-copies a MetricMap into canonical series, sorted by key.
func Snapshot(mm *gostatsd.MetricMap) []Series {
	var out []Series
	if mm == nil {
		return out
	}
	mm.Counters.Each(func(n, tk string, c gostatsd.Counter) {
		out = append(out, Series{Type: "c", Name: n, TagsKey: tk, Source: string(c.Source), Tags: append([]string{}, c.Tags...), Count: c.Value, TS: int64(c.Timestamp)})
	})
	mm.Gauges.Each(func(n, tk string, g gostatsd.Gauge) {
		out = append(out, Series{Type: "g", Name: n, TagsKey: tk, Source: string(g.Source), Tags: append([]string{}, g.Tags...), Gauge: g.Value, TS: int64(g.Timestamp)})
	})
	mm.Timers.Each(func(n, tk string, t gostatsd.Timer) {
		v := append([]float64{}, t.Values...)
		sort.Float64s(v)
		out = append(out, Series{Type: "t", Name: n, TagsKey: tk, Source: string(t.Source), Tags: append([]string{}, t.Tags...), Values: v, Sampled: t.SampledCount, TS: int64(t.Timestamp)})
	})
	mm.Sets.Each(func(n, tk string, s gostatsd.Set) {
		var m []string
		for k := range s.Values {
			m = append(m, k)
		}
		sort.Strings(m)
		out = append(out, Series{Type: "s", Name: n, TagsKey: tk, Source: string(s.Source), Tags: append([]string{}, s.Tags...), Members: m, TS: int64(s.Timestamp)})
	})
	sort.Slice(out, func(i, j int) bool { return out[i].Key() < out[j].Key() })
	return out
}

func fstr(f float64) string {
	if math.IsNaN(f) {
		return "NaN"
	}
	return fmt.Sprintf("%v", f)
}

// String renders a snapshot compactly (timestamps optional).
func String(ss []Series, withTS bool) string {
	var b strings.Builder
	for _, s := range ss {
		fmt.Fprintf(&b, "%s src=%q tags=%v", s.Key(), s.Source, s.Tags)
		switch s.Type {
		case "c":
			fmt.Fprintf(&b, " n=%d", s.Count)
		case "g":
			fmt.Fprintf(&b, " v=%s", fstr(s.Gauge))
		case "t":
			fmt.Fprintf(&b, " vals=%v sc=%s", s.Values, fstr(s.Sampled))
		case "s":
			fmt.Fprintf(&b, " m=%v", s.Members)
		}
		if withTS {
			fmt.Fprintf(&b, " ts=%d", s.TS)
		}
		b.WriteString("; ")
	}
	return b.String()
}

// Recorder is a PipelineHandler that records what reaches it.
type Recorder struct {
	Maps   []*gostatsd.MetricMap
	Events []*gostatsd.Event
}

func (r *Recorder) EstimatedTags() int { return 0 }
func (r *Recorder) DispatchMetricMap(ctx context.Context, mm *gostatsd.MetricMap) {
	r.Maps = append(r.Maps, mm)
}
func (r *Recorder) DispatchEvent(ctx context.Context, e *gostatsd.Event) {
	r.Events = append(r.Events, e)
}
func (r *Recorder) WaitForEvents() {}
func (r *Recorder) Reset()         { r.Maps, r.Events = r.Maps[:0], r.Events[:0] }

// NumDatapoints counts the datapoints held by the recorded maps (counter/gauge = 1 per series
// occurrence is not recoverable, so this counts series entries).
func (r *Recorder) Series() int {
	n := 0
	for _, mm := range r.Maps {
		n += len(Snapshot(mm))
	}
	return n
}
