// vinstr rewrites whole packages of the repository so that every synchronisation operation goes
// through the vsched shims. It works on source text guided by the type-checked AST: the text of a
// node is the original text with the outermost rewritable sub-nodes replaced (recursively).
//
// usage: vinstr -repo /repo -out DIR -module github.com/atlassian/gostatsd pkgdir...
// writes DIR/<pkgdir>/<file>.go and DIR/overlay.json (map original path -> instrumented path)
package main

import (
	"encoding/json"
	"flag"
	"fmt"
	"go/ast"
	"go/token"
	"go/types"
	"os"
	"path/filepath"
	"sort"
	"strings"

	"golang.org/x/tools/go/packages"
)

var shimBase = "github.com/atlassian/gostatsd/internal/verif/"

var importRewrite = map[string]string{
	"sync":                         "vsync",
	"github.com/ash2k/stager/wait": "vwait",
	"github.com/ash2k/stager":      "vstager",
	"golang.org/x/sync/errgroup":   "verrgroup",
}
var importName = map[string]string{"sync": "sync", "github.com/ash2k/stager/wait": "wait", "github.com/ash2k/stager": "stager", "golang.org/x/sync/errgroup": "errgroup"}

var timeFuncs = map[string]bool{"Now": true, "Since": true, "After": true, "NewTimer": true, "NewTicker": true, "Sleep": true, "AfterFunc": true, "Until": true, "Tick": true}

// Variables and struct fields of a sync/atomic type on which CompareAndSwap is called somewhere: a lock-free
// protocol (read, decide, swap) is built on them, so every operation on them is made a scheduling point -
// the other atomics of the repository are plain counters and stay invisible.
var casVars = map[types.Object]bool{}
var atomicMethods = map[string]bool{"Load": true, "Store": true, "Add": true, "Swap": true, "CompareAndSwap": true}

func objOf(info *types.Info, e ast.Expr) types.Object {
	switch x := unparen(e).(type) {
	case *ast.Ident:
		return info.Uses[x]
	case *ast.SelectorExpr:
		return info.Uses[x.Sel]
	}
	return nil
}

func isAtomicType(t types.Type) bool {
	if t == nil {
		return false
	}
	if p, ok := types.Unalias(t).(*types.Pointer); ok {
		t = p.Elem()
	}
	n, ok := types.Unalias(t).(*types.Named)
	return ok && n.Obj().Pkg() != nil && n.Obj().Pkg().Path() == "sync/atomic"
}

func collectCAS(info *types.Info, f *ast.File) {
	ast.Inspect(f, func(c ast.Node) bool {
		call, ok := c.(*ast.CallExpr)
		if !ok {
			return true
		}
		sel, ok := call.Fun.(*ast.SelectorExpr)
		if !ok || sel.Sel.Name != "CompareAndSwap" {
			return true
		}
		if tv, ok := info.Types[sel.X]; ok && isAtomicType(tv.Type) {
			if o := objOf(info, sel.X); o != nil {
				casVars[o] = true
			}
		}
		return true
	})
}

func (r *rw) atomicCall(x *ast.CallExpr) (*ast.SelectorExpr, bool) {
	sel, ok := x.Fun.(*ast.SelectorExpr)
	if !ok || !atomicMethods[sel.Sel.Name] || !r.simpleExpr(sel.X) {
		return nil, false
	}
	o := objOf(r.info, sel.X)
	return sel, o != nil && casVars[o]
}

type rw struct {
	fset *token.FileSet
	src  []byte
	info *types.Info
	n    int
	file *ast.File

	timeUsed bool
}

func die(format string, a ...any) {
	fmt.Fprintf(os.Stderr, "vinstr: "+format+"\n", a...)
	os.Exit(2)
}

func (r *rw) off(p token.Pos) int { return r.fset.Position(p).Offset }

func (r *rw) fresh(base string) string { r.n++; return fmt.Sprintf("vs_%s%d", base, r.n) }

func unparen(e ast.Expr) ast.Expr {
	for {
		p, ok := e.(*ast.ParenExpr)
		if !ok {
			return e
		}
		e = p.X
	}
}

func isRecv(e ast.Expr) (*ast.UnaryExpr, bool) {
	u, ok := unparen(e).(*ast.UnaryExpr)
	if ok && u.Op == token.ARROW {
		return u, true
	}
	return nil, false
}

func (r *rw) typeOf(e ast.Expr) types.Type {
	if tv, ok := r.info.Types[e]; ok {
		return tv.Type
	}
	return nil
}

func (r *rw) isConstOrNil(e ast.Expr) bool {
	tv, ok := r.info.Types[e]
	if !ok {
		return false
	}
	return tv.Value != nil || tv.IsNil()
}

func (r *rw) isPkg(e ast.Expr, path string) bool {
	id, ok := e.(*ast.Ident)
	if !ok {
		return false
	}
	pn, ok := r.info.Uses[id].(*types.PkgName)
	return ok && pn.Imported().Path() == path
}

func (r *rw) isBuiltin(e ast.Expr, name string) bool {
	id, ok := unparen(e).(*ast.Ident)
	if !ok || id.Name != name {
		return false
	}
	_, ok = r.info.Uses[id].(*types.Builtin)
	return ok
}

func (r *rw) isCancelFunc(e ast.Expr) bool {
	t := r.typeOf(e)
	if t == nil {
		return false
	}
	n, ok := types.Unalias(t).(*types.Named)
	if !ok {
		return false
	}
	o := n.Obj()
	return o.Pkg() != nil && o.Pkg().Path() == "context" && (o.Name() == "CancelFunc")
}

// rewritable reports whether n is a node this tool replaces.
func (r *rw) rewritable(n ast.Node) bool {
	switch x := n.(type) {
	case *ast.SendStmt, *ast.SelectStmt, *ast.GoStmt:
		return true
	case *ast.UnaryExpr:
		return x.Op == token.ARROW
	case *ast.AssignStmt:
		if len(x.Lhs) == 2 && len(x.Rhs) == 1 {
			_, ok := isRecv(x.Rhs[0])
			return ok
		}
	case *ast.ValueSpec:
		if len(x.Names) == 2 && len(x.Values) == 1 {
			_, ok := isRecv(x.Values[0])
			return ok
		}
	case *ast.CallExpr:
		if r.isBuiltin(x.Fun, "close") {
			return true
		}
		if r.isCancelFunc(x.Fun) {
			return true
		}
		if _, ok := r.atomicCall(x); ok {
			return true
		}
	case *ast.SelectorExpr:
		return r.isPkg(x.X, "time") && timeFuncs[x.Sel.Name]
	case *ast.RangeStmt:
		switch types.Unalias(r.typeOf(x.X)).Underlying().(type) {
		case *types.Chan, *types.Map:
			return true
		}
	case *ast.LabeledStmt:
		if rs, ok := x.Stmt.(*ast.RangeStmt); ok {
			return r.rewritable(rs)
		}
	}
	return false
}

// text returns the source of n with rewrites applied to everything strictly inside n.
func (r *rw) text(n ast.Node) string {
	if n == nil {
		return ""
	}
	var kids []ast.Node
	ast.Inspect(n, func(c ast.Node) bool {
		if c == nil || c == n {
			return true
		}
		if r.rewritable(c) {
			kids = append(kids, c)
			return false
		}
		return true
	})
	return r.splice(r.off(n.Pos()), r.off(n.End()), kids)
}

func (r *rw) splice(from, to int, kids []ast.Node) string {
	sort.Slice(kids, func(i, j int) bool { return kids[i].Pos() < kids[j].Pos() })
	var b strings.Builder
	p := from
	for _, k := range kids {
		ks, ke := r.off(k.Pos()), r.off(k.End())
		if ks < p {
			die("overlapping rewrite at %s", r.fset.Position(k.Pos()))
		}
		b.Write(r.src[p:ks])
		b.WriteString(r.rewrite(k))
		p = ke
	}
	b.Write(r.src[p:to])
	return b.String()
}

// stmts returns the rewritten text of a statement list.
func (r *rw) stmts(list []ast.Stmt) string {
	var b strings.Builder
	for _, s := range list {
		if r.rewritable(s) {
			b.WriteString(r.rewrite(s))
		} else {
			b.WriteString(r.text(s))
		}
		b.WriteString("\n")
	}
	return b.String()
}

// any returns the rewritten text of n whether or not n itself is rewritable.
func (r *rw) any(n ast.Node) string {
	if r.rewritable(n) {
		return r.rewrite(n)
	}
	return r.text(n)
}

func tokStr(t token.Token) string { return t.String() }

func (r *rw) simpleExpr(e ast.Expr) bool {
	switch x := unparen(e).(type) {
	case *ast.Ident:
		return true
	case *ast.SelectorExpr:
		return r.simpleExpr(x.X)
	}
	return false
}

func (r *rw) rewrite(n ast.Node) string {
	switch x := n.(type) {
	case *ast.SendStmt:
		return "vsched.Send(" + r.any(x.Chan) + ", " + r.any(x.Value) + ")"
	case *ast.UnaryExpr:
		return "vsched.Recv(" + r.any(x.X) + ")"
	case *ast.AssignStmt:
		u, _ := isRecv(x.Rhs[0])
		return r.any(x.Lhs[0]) + ", " + r.any(x.Lhs[1]) + " " + tokStr(x.Tok) + " vsched.Recv2(" + r.any(u.X) + ")"
	case *ast.ValueSpec:
		u, _ := isRecv(x.Values[0])
		t := ""
		if x.Type != nil {
			t = " " + r.any(x.Type)
		}
		return x.Names[0].Name + ", " + x.Names[1].Name + t + " = vsched.Recv2(" + r.any(u.X) + ")"
	case *ast.CallExpr:
		if r.isBuiltin(x.Fun, "close") {
			return "vsched.Close(" + r.any(x.Args[0]) + ")"
		}
		if sel, ok := r.atomicCall(x); ok {
			recv := string(r.src[r.off(sel.X.Pos()):r.off(sel.X.End())])
			label := fmt.Sprintf("%q", "atomic "+sel.Sel.Name+" "+recv)
			w := "true"
			if sel.Sel.Name == "Load" {
				w = "false"
			}
			call := r.text(x)
			if sel.Sel.Name == "Store" {
				return "func() { vsched.AtomicPt(&" + recv + ", true, " + label + "); " + call + " }()"
			}
			// operands are evaluated left to right: the scheduling point first, then the operation itself
			return "vsched.AtomicOp(vsched.AtomicPt(&" + recv + ", " + w + ", " + label + "), " + call + ")"
		}
		return "vsched.Cancel(" + r.any(x.Fun) + ")"
	case *ast.SelectorExpr:
		r.timeUsed = true
		return "vtime." + x.Sel.Name
	case *ast.GoStmt:
		return r.goStmt(x)
	case *ast.SelectStmt:
		return r.selectStmt(x)
	case *ast.RangeStmt:
		return r.rangeStmt(x, "")
	case *ast.LabeledStmt:
		return r.rangeStmt(x.Stmt.(*ast.RangeStmt), x.Label.Name)
	}
	die("rewrite of %T", n)
	return ""
}

func (r *rw) goStmt(g *ast.GoStmt) string {
	c := g.Call
	if fl, ok := unparen(c.Fun).(*ast.FuncLit); ok && len(c.Args) == 0 {
		return "vsched.Go(" + r.any(fl) + ")"
	}
	var b strings.Builder
	b.WriteString("{\n")
	fn := ""
	bindFun := true
	switch f := unparen(c.Fun).(type) {
	case *ast.Ident:
		if _, ok := r.info.Uses[f].(*types.Func); ok {
			bindFun = false
		}
	case *ast.SelectorExpr:
		if r.info.Selections[f] == nil { // qualified identifier pkg.Func
			bindFun = false
		}
	}
	if bindFun {
		fn = r.fresh("f")
		b.WriteString(fn + " := " + r.any(c.Fun) + "\n")
	} else {
		fn = r.any(c.Fun)
	}
	var args []string
	for i, a := range c.Args {
		if r.isConstOrNil(a) {
			args = append(args, r.any(a))
			continue
		}
		v := r.fresh("a")
		b.WriteString(v + " := " + r.any(a) + "\n")
		if i == len(c.Args)-1 && c.Ellipsis.IsValid() {
			v += "..."
		}
		args = append(args, v)
	}
	b.WriteString("vsched.Go(func() { " + fn + "(" + strings.Join(args, ", ") + ") })\n}")
	return b.String()
}

func (r *rw) selectStmt(s *ast.SelectStmt) string {
	var hoist, cases, sw, orig strings.Builder
	hasDefault := false
	idx := 0
	for _, cl := range s.Body.List {
		cc := cl.(*ast.CommClause)
		body := r.stmts(cc.Body)
		switch comm := cc.Comm.(type) {
		case nil:
			hasDefault = true
			sw.WriteString("case -1:\n" + body)
			orig.WriteString("default:\n" + body)
			continue
		case *ast.SendStmt:
			cv, vv := r.fresh("c"), ""
			chText, valText := r.any(comm.Chan), r.any(comm.Value)
			hoist.WriteString(cv + " := " + chText + "\n")
			if r.isConstOrNil(comm.Value) {
				vv = valText
			} else {
				vv = r.fresh("v")
				hoist.WriteString(vv + " := " + valText + "\n")
			}
			cases.WriteString(", vsched.CaseSend(" + cv + ")")
			sw.WriteString(fmt.Sprintf("case %d:\nvsched.SelSend(%s, %s)\n%s", idx, cv, vv, body))
			orig.WriteString("case " + chText + " <- " + valText + ":\n" + body)
		case *ast.ExprStmt:
			u, ok := isRecv(comm.X)
			if !ok {
				die("select comm %T", comm.X)
			}
			cv := r.fresh("c")
			chText := r.any(u.X)
			hoist.WriteString(cv + " := " + chText + "\n")
			cases.WriteString(", vsched.CaseRecv(" + cv + ")")
			sw.WriteString(fmt.Sprintf("case %d:\nvsched.SelRecv(%s)\n%s", idx, cv, body))
			orig.WriteString("case <-" + chText + ":\n" + body)
		case *ast.AssignStmt:
			u, ok := isRecv(comm.Rhs[0])
			if !ok {
				die("select comm assign")
			}
			cv := r.fresh("c")
			chText := r.any(u.X)
			hoist.WriteString(cv + " := " + chText + "\n")
			cases.WriteString(", vsched.CaseRecv(" + cv + ")")
			var lhs []string
			for _, l := range comm.Lhs {
				lhs = append(lhs, r.any(l))
			}
			fn := "vsched.SelRecv"
			if len(lhs) == 2 {
				fn = "vsched.SelRecv2"
			}
			sw.WriteString(fmt.Sprintf("case %d:\n%s %s %s(%s)\n%s", idx, strings.Join(lhs, ", "), tokStr(comm.Tok), fn, cv, body))
			orig.WriteString("case " + strings.Join(lhs, ", ") + " " + tokStr(comm.Tok) + " <-" + chText + ":\n" + body)
		default:
			die("select comm %T", comm)
		}
		idx++
	}
	sw.WriteString("default:\npanic(\"vsched: bad select arm\")\n")
	return fmt.Sprintf("if vsched.On() {\n%sswitch vsched.Select(%v%s) {\n%s}\n} else {\nselect {\n%s}\n}", hoist.String(), hasDefault, cases.String(), sw.String(), orig.String())
}

func (r *rw) rangeStmt(s *ast.RangeStmt, label string) string {
	var pre, head, first strings.Builder
	x := r.any(s.X)
	if !r.simpleExpr(s.X) {
		v := r.fresh("r")
		pre.WriteString(v + " := " + x + "\n")
		x = v
	}
	lab := ""
	if label != "" {
		lab = label + ":\n"
	}
	body := r.stmts(s.Body.List)
	keyT, valT := "", ""
	if s.Key != nil {
		keyT = r.any(s.Key)
	}
	if s.Value != nil {
		valT = r.any(s.Value)
	}
	tok := tokStr(s.Tok)
	switch ut := types.Unalias(r.typeOf(s.X)).Underlying().(type) {
	case *types.Chan:
		tv, ok := r.fresh("v"), r.fresh("ok")
		head.WriteString("for {\n")
		first.WriteString(fmt.Sprintf("%s, %s := vsched.Recv2(%s)\nif !%s {\nbreak\n}\n", tv, ok, x, ok))
		if keyT != "" && keyT != "_" {
			first.WriteString(fmt.Sprintf("%s %s %s\n", keyT, tok, tv))
		} else {
			first.WriteString("_ = " + tv + "\n")
		}
	case *types.Map:
		fn := "vsched.MapOrderAny"
		if b, ok := types.Unalias(ut.Key()).Underlying().(*types.Basic); ok && b.Info()&types.IsOrdered != 0 {
			fn = "vsched.MapOrder"
		}
		tk, tv, ok := r.fresh("k"), r.fresh("v"), r.fresh("ok")
		head.WriteString(fmt.Sprintf("for _, %s := range %s(%s) {\n", tk, fn, x))
		first.WriteString(fmt.Sprintf("%s, %s := %s[%s]\nif !%s {\ncontinue\n}\n_ = %s\n", tv, ok, x, tk, ok, tv))
		var l, rr []string
		if keyT != "" && keyT != "_" {
			l, rr = append(l, keyT), append(rr, tk)
		}
		if valT != "" && valT != "_" {
			l, rr = append(l, valT), append(rr, tv)
		}
		if len(l) > 0 {
			first.WriteString(strings.Join(l, ", ") + " " + tok + " " + strings.Join(rr, ", ") + "\n")
		}
	}
	out := lab + head.String() + first.String() + "{\n" + body + "}\n}"
	if pre.Len() > 0 || label != "" {
		return "{\n" + pre.String() + out + "\n}"
	}
	return out
}

// fileText rewrites one file.
func (r *rw) fileText() string {
	f := r.file
	type repl struct {
		from, to int
		node     ast.Node
		text     string
	}
	var reps []repl
	for _, is := range f.Imports {
		p := strings.Trim(is.Path.Value, `"`)
		if nw, ok := importRewrite[p]; ok {
			name := importName[p]
			if is.Name != nil {
				name = is.Name.Name
			}
			reps = append(reps, repl{from: r.off(is.Pos()), to: r.off(is.End()), text: name + ` "` + shimBase + nw + `"`})
		}
	}
	ast.Inspect(f, func(c ast.Node) bool {
		if c == nil {
			return true
		}
		if _, ok := c.(*ast.File); ok {
			return true
		}
		if r.rewritable(c) {
			reps = append(reps, repl{from: r.off(c.Pos()), to: r.off(c.End()), node: c})
			return false
		}
		return true
	})
	sort.Slice(reps, func(i, j int) bool { return reps[i].from < reps[j].from })
	var b strings.Builder
	pkgEnd := r.off(f.Name.End())
	b.Write(r.src[:pkgEnd])
	b.WriteString("\n\nimport vsched \"" + shimBase + "vsched\"\nimport vtime \"" + shimBase + "vtime\"\n")
	p := pkgEnd
	for _, k := range reps {
		if k.from < p {
			die("overlapping rewrite in %s", r.fset.Position(f.Pos()).Filename)
		}
		b.Write(r.src[p:k.from])
		if k.node != nil {
			b.WriteString(r.rewrite(k.node))
		} else {
			b.WriteString(k.text)
		}
		p = k.to
	}
	b.Write(r.src[p:])
	b.WriteString("\nvar _ = vsched.On\nvar _ = vtime.Now\n")
	if r.timeUsed {
		b.WriteString("var _ time.Duration\n")
	}
	return b.String()
}

func main() {
	repo := flag.String("repo", "/repo", "repository root")
	out := flag.String("out", "", "output directory")
	flag.Parse()
	if *out == "" || flag.NArg() == 0 {
		die("usage: vinstr -repo R -out DIR pkgdir...")
	}
	if abs, err := filepath.Abs(*out); err == nil {
		*out = abs
	}
	var pats []string
	for _, a := range flag.Args() {
		if a == "." {
			pats = append(pats, ".")
		} else {
			pats = append(pats, "./"+strings.TrimPrefix(a, "./"))
		}
	}
	cfg := &packages.Config{Mode: packages.NeedName | packages.NeedFiles | packages.NeedCompiledGoFiles | packages.NeedSyntax | packages.NeedTypes | packages.NeedTypesInfo | packages.NeedImports | packages.NeedDeps, Dir: *repo}
	pkgs, err := packages.Load(cfg, pats...)
	if err != nil {
		die("load: %v", err)
	}
	for _, p := range pkgs {
		for i, f := range p.Syntax {
			if strings.HasPrefix(p.CompiledGoFiles[i], *repo+"/") {
				collectCAS(p.TypesInfo, f)
			}
		}
	}
	overlay := map[string]string{}
	nfiles, nsites := 0, 0
	for _, p := range pkgs {
		if len(p.Errors) > 0 {
			die("package %s: %v", p.PkgPath, p.Errors)
		}
		for i, f := range p.Syntax {
			path := p.CompiledGoFiles[i]
			if !strings.HasPrefix(path, *repo+"/") {
				continue
			}
			src, err := os.ReadFile(path)
			if err != nil {
				die("%v", err)
			}
			r := &rw{fset: p.Fset, src: src, info: p.TypesInfo, file: f}
			txt := r.fileText()
			nsites += r.n
			rel := strings.TrimPrefix(path, *repo+"/")
			dst := filepath.Join(*out, rel)
			os.MkdirAll(filepath.Dir(dst), 0o755)
			if err := os.WriteFile(dst, []byte(txt), 0o644); err != nil {
				die("%v", err)
			}
			overlay[path] = dst
			nfiles++
		}
	}
	js, _ := json.MarshalIndent(overlay, "", " ")
	os.WriteFile(filepath.Join(*out, "overlay.json"), js, 0o644)
	fmt.Printf("vinstr: %d packages, %d files\n", len(pkgs), nfiles)
	_ = nsites
}
