// Package vsync has the API of package sync; under a controlled execution every operation is a
// scheduling point of vsched, otherwise it delegates to the real primitives.
package vsync

import (
	"sync"

	"github.com/atlassian/gostatsd/internal/verif/vsched"
)

type Locker = sync.Locker

type Mutex struct {
	m      sync.Mutex
	locked bool
}

func (m *Mutex) Lock() {
	if !vsched.On() {
		m.m.Lock()
		return
	}
	vsched.SyncOp(m, true, "lock", func() bool { return !m.locked })
	m.locked = true
}

func (m *Mutex) TryLock() bool {
	if !vsched.On() {
		return m.m.TryLock()
	}
	vsched.SyncOp(m, true, "trylock", nil)
	if m.locked {
		return false
	}
	m.locked = true
	return true
}

func (m *Mutex) Unlock() {
	if !vsched.On() {
		m.m.Unlock()
		return
	}
	if vsched.Aborting() {
		m.locked = false // teardown: release without scheduling so that long-lived objects are left clean
		return
	}
	vsched.SyncOp(m, true, "unlock", nil)
	if !m.locked {
		panic("sync: unlock of unlocked mutex")
	}
	m.locked = false
}

type RWMutex struct {
	m       sync.RWMutex
	writer  bool
	readers int
}

func (m *RWMutex) Lock() {
	if !vsched.On() {
		m.m.Lock()
		return
	}
	vsched.SyncOp(m, true, "wlock", func() bool { return !m.writer && m.readers == 0 })
	m.writer = true
}

func (m *RWMutex) Unlock() {
	if !vsched.On() {
		m.m.Unlock()
		return
	}
	if vsched.Aborting() {
		m.writer = false
		return
	}
	vsched.SyncOp(m, true, "wunlock", nil)
	if !m.writer {
		panic("sync: Unlock of unlocked RWMutex")
	}
	m.writer = false
}

func (m *RWMutex) RLock() {
	if !vsched.On() {
		m.m.RLock()
		return
	}
	vsched.SyncOp(m, true, "rlock", func() bool { return !m.writer })
	m.readers++
}

func (m *RWMutex) RUnlock() {
	if !vsched.On() {
		m.m.RUnlock()
		return
	}
	if vsched.Aborting() {
		if m.readers > 0 {
			m.readers--
		}
		return
	}
	vsched.SyncOp(m, true, "runlock", nil)
	if m.readers <= 0 {
		panic("sync: RUnlock of unlocked RWMutex")
	}
	m.readers--
}

func (m *RWMutex) RLocker() Locker { return (*rlocker)(m) }

type rlocker RWMutex

func (r *rlocker) Lock()   { (*RWMutex)(r).RLock() }
func (r *rlocker) Unlock() { (*RWMutex)(r).RUnlock() }

type WaitGroup struct {
	wg sync.WaitGroup
	n  int
}

func (w *WaitGroup) Add(d int) {
	if !vsched.On() {
		w.wg.Add(d)
		return
	}
	if vsched.Aborting() {
		return
	}
	vsched.SyncOp(w, true, "wg.add", nil)
	w.n += d
	if w.n < 0 {
		panic("sync: negative WaitGroup counter")
	}
}

func (w *WaitGroup) Done() { w.Add(-1) }

func (w *WaitGroup) Wait() {
	if !vsched.On() {
		w.wg.Wait()
		return
	}
	vsched.SyncOp(w, false, "wg.wait", func() bool { return w.n == 0 })
}

type Once struct {
	o       sync.Once
	done    bool
	running bool
}

func (o *Once) Do(f func()) {
	if !vsched.On() {
		o.o.Do(f)
		return
	}
	vsched.SyncOp(o, true, "once", func() bool { return !o.running })
	if o.done {
		return
	}
	o.running = true
	defer func() { o.done, o.running = true, false }()
	f()
}

// Pool never drops and hands back the most recently returned object (adversarial reuse). Get/Put
// are not scheduling points.
type Pool struct {
	New   func() any
	m     sync.Mutex
	items []any
}

func (p *Pool) Get() any {
	p.m.Lock()
	if n := len(p.items); n > 0 {
		x := p.items[n-1]
		p.items = p.items[:n-1]
		p.m.Unlock()
		return x
	}
	p.m.Unlock()
	if p.New != nil {
		return p.New()
	}
	return nil
}

func (p *Pool) Put(x any) {
	if x == nil {
		return
	}
	p.m.Lock()
	p.items = append(p.items, x)
	p.m.Unlock()
}

// Map is the real sync.Map (not used by instrumented code paths that matter).
type Map = sync.Map
