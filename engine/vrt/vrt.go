// Package vrt is the small runtime shared by all harness binaries: flags, sharding, result files.
package vrt

import (
	"encoding/binary"
	"encoding/json"
	"flag"
	"fmt"
	"hash/fnv"
	"os"
	"strings"
	"time"
)

type Violation struct {
	Key    string `json:"key"`
	Msg    string `json:"msg"`
	Replay any    `json:"replay"`
}

type Result struct {
	Evaluations        int64            `json:"evaluations"`
	DistinctNontrivial int64            `json:"distinct_nontrivial"`
	States             int64            `json:"states"`
	Transitions        int64            `json:"transitions"`
	Traces             int64            `json:"traces_validated_against_impl"`
	Samples            []any            `json:"samples"`
	Violations         []Violation      `json:"violations"`
	ViolationsDropped  int64            `json:"violations_dropped"`
	Exhaustive         bool             `json:"exhaustive"`
	Counters           map[string]int64 `json:"counters"`
	Info               map[string]any   `json:"info"`
	vkeys              map[string]bool
	vkinds             map[string]int
}

var (
	Tier       = flag.String("tier", "quick", "quick|thorough")
	Shard      = flag.Int("shard", 0, "shard index")
	NShards    = flag.Int("nshards", 1, "number of shards")
	Out        = flag.String("out", "", "result file")
	ReplayPath = flag.String("replay", "", "replay file")
	Budget     = flag.Duration("budget", 0, "internal deadline (0 = none)")
	Seed       = flag.Int64("seed", 0, "only permutes work order")
	Sub        = flag.String("sub", "", "sub-harness selector")
	start      time.Time
)

func Init() *Result {
	flag.Parse()
	start = time.Now()
	cur = &Result{Exhaustive: true, Counters: map[string]int64{}, Info: map[string]any{}, vkeys: map[string]bool{}}
	return cur
}

var (
	cur       *Result
	mineCalls int64
	stopped   bool
)

func Thorough() bool { return *Tier == "thorough" }

// Deadline returns the internal deadline (zero if none).
func Deadline() time.Time {
	if *Budget == 0 {
		return time.Time{}
	}
	return start.Add(*Budget)
}

func Expired() bool { return *Budget != 0 && time.Since(start) > *Budget }

// Mine reports whether work item i belongs to this shard.
// Stop is for long inner loops of one work item: it reports (and records) that the internal deadline has passed.
func Stop() bool {
	if stopped {
		return true
	}
	mineCalls++
	if mineCalls&63 == 0 && Expired() && cur != nil {
		stopped = true
		cur.Exhaustive = false
		cur.Info["stopped_at_deadline"] = fmt.Sprintf("the internal deadline of %v passed in the middle of a work item; the rest was not evaluated", *Budget)
	}
	return stopped
}

// Once the internal deadline has passed no further item is taken up: the enumeration runs out without
// evaluating anything more and the result says exhaustive=false with the number of items left out (an
// enumeration that is cut short is never reported as complete, and never killed from outside).
func Mine(i int64) bool {
	if stopped {
		cur.Counters["items_not_evaluated_after_deadline"]++
		return false
	}
	mineCalls++
	if mineCalls&255 == 0 && Expired() && cur != nil {
		stopped = true
		cur.Exhaustive = false
		cur.Info["stopped_at_deadline"] = fmt.Sprintf("the internal deadline of %v passed after %d work items had been looked at; the rest was not evaluated", *Budget, mineCalls)
		cur.Counters["items_not_evaluated_after_deadline"]++
		return false
	}
	return int(i%int64(*NShards)) == *Shard
}

func (r *Result) Violate(key, msg string, replay any) {
	if r.vkeys[key] {
		r.ViolationsDropped++
		return
	}
	r.vkeys[key] = true
	kind := key
	if i := strings.IndexByte(key, ' '); i >= 0 {
		kind = key[:i]
	}
	if r.vkinds == nil {
		r.vkinds = map[string]int{}
	}
	r.vkinds[kind]++
	if r.vkinds[kind] > 3 || len(r.Violations) >= 60 {
		r.ViolationsDropped++
		return
	}
	if _, err := json.Marshal(replay); err != nil {
		replay = map[string]string{"unencodable": fmt.Sprintf("%+v", replay)}
	}
	r.Violations = append(r.Violations, Violation{key, msg, replay})
}

func (r *Result) Sample(x any) {
	if _, err := json.Marshal(x); err != nil {
		x = fmt.Sprintf("%+v", x)
	}
	if len(r.Samples) < 4 {
		r.Samples = append(r.Samples, x)
	}
}

// SetDistinctKeys sets distinct_nontrivial from a set of case keys and dumps their hashes so that the
// driver can count the union over shards exactly (instead of summing per-shard counts).
func (r *Result) SetDistinctKeys(m map[string]struct{}) {
	r.DistinctNontrivial = int64(len(m))
	buf := make([]byte, 0, 8*len(m))
	for k := range m {
		h := fnv.New64a()
		h.Write([]byte(k))
		buf = binary.LittleEndian.AppendUint64(buf, h.Sum64())
	}
	os.WriteFile(fmt.Sprintf("distinct_%s_%d.bin", *Sub, *Shard), buf, 0o644)
}

func (r *Result) Finish() {
	js, err := json.Marshal(r)
	if err != nil {
		fmt.Fprintln(os.Stderr, "INTERNAL: marshal result:", err)
		os.Exit(2)
	}
	if *Out == "" {
		os.Stdout.Write(js)
		fmt.Println()
		return
	}
	if err := os.WriteFile(*Out, js, 0o644); err != nil {
		fmt.Fprintln(os.Stderr, "INTERNAL:", err)
		os.Exit(2)
	}
}

// LoadReplay decodes the replay file into v.
func LoadReplay(v any) {
	b, err := os.ReadFile(*ReplayPath)
	if err != nil {
		fmt.Fprintln(os.Stderr, "INTERNAL:", err)
		os.Exit(2)
	}
	var w struct {
		Replay json.RawMessage `json:"replay"`
	}
	if err := json.Unmarshal(b, &w); err != nil || w.Replay == nil {
		fmt.Fprintln(os.Stderr, "INTERNAL: bad replay file", err)
		os.Exit(2)
	}
	if err := json.Unmarshal(w.Replay, v); err != nil {
		fmt.Fprintln(os.Stderr, "INTERNAL: bad replay payload", err)
		os.Exit(2)
	}
}
