package vsched

import (
	"encoding/binary"
	"fmt"
	"os"
	"runtime"
	"strings"
	"time"
)

// Exec is handed to the harness body and check of one execution.
type Exec struct {
	s     *Sched
	notes []string
}

// Config of an exploration.
type Config struct {
	Name      string
	Horizon   int       // max scheduling points per execution (default 5000)
	Deadline  time.Time // stop exploring (non-exhaustive) after this
	Shard     int
	NShards   int
	SplitLvl  int // tree level at which sub-trees are distributed over shards (default 2)
	MaxExecs  int64
	NoSleep   bool // disable sleep sets (plain DFS)
	StatesOut string // file receiving the distinct state keys (binary uint64)
	// Body builds the system and drives it; it runs as thread "0". Check is called after the
	// execution ended (outcome ok/deadlock/panic...) and returns a violation message or "".
	Body  func(x *Exec)
	Check func(x *Exec, o Outcome) (key string, msg string)
	// AllowDeadlock: a deadlock outcome is passed to Check instead of being a violation by itself.
	AllowDeadlock bool
}

// Violation found by an exploration.
type Violation struct {
	Key     string     `json:"key"`
	Msg     string     `json:"msg"`
	Choices []TransKey `json:"choices"`
	Trace   []string   `json:"trace"`
	Outcome string     `json:"outcome"`
}

// Stats of an exploration.
type Stats struct {
	Executions   int64 // complete executions (inequivalent schedules)
	SleepBlocked int64
	Horizon      int64
	Transitions  int64
	States       int64
	// StatesBeyondCap: state keys seen after the kept set was full and not found in it (an upper bound on
	// how many distinct states the count States is short of)
	StatesBeyondCap int64
	MaxDepth     int
	Outcomes     map[string]int64
	Exhaustive   bool
	Violations   []Violation
	SampleTraces [][]string
	Notes        map[string]int64 // harness vacuity counters
	Dropped      int64
}

type explorer struct {
	cfg    Config
	st     *Stats
	states map[uint64]struct{}
	task   int64
	stop   bool
	vkeys  map[string]bool
}

// Note records a named fact about this execution (counted per distinct name in Stats.Notes).
func (x *Exec) Note(name string) {
	if fs := free; fs != nil {
		fs.mu.Lock()
		defer fs.mu.Unlock()
	}
	x.s.noteSet[name] = true
}

// Sched gives access to the trace of this execution.
func (x *Exec) Trace() []string { return x.s.trace }

func (e *explorer) runOne(prefix []TransKey, sleep []TransKey, trace bool) (*Sched, Outcome) {
	s := &Sched{doneCh: make(chan struct{}), prefix: prefix, initSleep: sleep, horizon: e.cfg.Horizon,
		closedSet: map[uintptr]bool{}, objHash: map[uintptr]uint64{}, env: map[string]any{}, keep: map[uintptr]any{}, traceOn: trace, noteSet: map[string]bool{}}
	x := &Exec{s: s}
	s.x = x
	cur = s
	t0 := s.newThread(nil, "main")
	s.active = t0
	s.runThread(t0, func() { e.cfg.Body(x) })
	t0.wake <- wkGo
	<-s.doneCh
	// tear down, one thread at a time
	s.aborting = true
	for i := 0; i < len(s.threads); i++ { // threads may be appended by deferred code? (Go aborts) - re-read len
		t := s.threads[i]
		select {
		case <-t.exited:
			continue
		default:
		}
		t.wake <- wkAbort
		<-t.exited
	}
	s.live.Wait()
	cur = nil
	return s, s.outcome
}

// Explore runs the depth-first search with sleep sets over all schedules and choices of Body.
func Explore(cfg Config) *Stats {
	if cfg.Horizon == 0 {
		cfg.Horizon = 5000
	}
	if cfg.NShards == 0 {
		cfg.NShards = 1
	}
	if cfg.SplitLvl == 0 {
		cfg.SplitLvl = 2
	}
	st := &Stats{Outcomes: map[string]int64{}, Exhaustive: true, Notes: map[string]int64{}}
	if FreeRuns > 0 {
		exploreFree(cfg, st)
		return st
	}
	e := &explorer{cfg: cfg, st: st, states: map[uint64]struct{}{}, vkeys: map[string]bool{}}
	e.explore(nil, nil, 0)
	st.States = int64(len(e.states))
	if cfg.StatesOut != "" && st.StatesBeyondCap == 0 && len(e.states) <= 2<<20 && os.Getenv("VSCHED_NO_STATEFILES") == "" {
		buf := make([]byte, 0, 8*len(e.states))
		for k := range e.states {
			buf = binary.LittleEndian.AppendUint64(buf, k)
		}
		os.WriteFile(cfg.StatesOut, buf, 0o644)
	}
	return st
}

func keysOf(ts []*trans) []TransKey {
	out := make([]TransKey, len(ts))
	for i, t := range ts {
		out[i] = t.key
	}
	return out
}

func (e *explorer) explore(prefix []TransKey, sleep []TransKey, level int) {
	if e.stop {
		return
	}
	mine := true
	if level == e.cfg.SplitLvl {
		e.task++
		if int(e.task%int64(e.cfg.NShards)) != e.cfg.Shard {
			return
		}
	} else if level < e.cfg.SplitLvl {
		mine = e.cfg.Shard == 0 // shared levels are counted by shard 0 only
	}
	if !e.cfg.Deadline.IsZero() && time.Now().After(e.cfg.Deadline) || (e.cfg.MaxExecs > 0 && e.st.Executions >= e.cfg.MaxExecs) {
		e.stop = true
		e.st.Exhaustive = false
		return
	}
	s, o := e.runOne(prefix, sleep, false)
	if o.Kind == "diverged" {
		fmt.Fprintf(os.Stderr, "INTERNAL: replay diverged in %s: %s\n", e.cfg.Name, o.Detail)
		s2, _ := e.runOne(prefix[:len(s.nodes)], nil, true)
		fmt.Fprintf(os.Stderr, "prefix trace:\n%s\n", strings.Join(s2.trace, "\n"))
		os.Exit(2)
	}
	nodes := s.nodes
	if mine {
		e.account(s, o, prefix, sleep)
	}
	// branch: deepest node first
	for i := len(nodes) - 1; i >= len(prefix); i-- {
		nd := nodes[i]
		if nd.chosen < 0 || len(nd.enabled) == 1 {
			continue
		}
		explored := []*trans{nd.enabled[nd.chosen]}
		var base []TransKey
		for _, alt := range nd.enabled {
			if e.stop {
				return
			}
			if alt == nd.enabled[nd.chosen] {
				continue
			}
			asleep := false
			if !e.cfg.NoSleep {
				for _, z := range nd.sleep {
					if z == alt {
						asleep = true
						break
					}
				}
			}
			if asleep {
				continue
			}
			if base == nil {
				base = make([]TransKey, i, i+1)
				for j := 0; j < i; j++ {
					base[j] = nodes[j].enabled[nodes[j].chosen].key
				}
			}
			var childSleep []TransKey
			if !e.cfg.NoSleep {
				for _, z := range nd.sleep {
					if !dependent(z, alt) {
						childSleep = append(childSleep, z.key)
					}
				}
				for _, z := range explored {
					if !dependent(z, alt) {
						childSleep = append(childSleep, z.key)
					}
				}
			}
			np := append(append([]TransKey{}, base...), alt.key)
			e.explore(np, childSleep, level+1)
			explored = append(explored, alt)
		}
	}
}

// MaxStatesKept bounds the set of distinct happens-before state keys kept per exploration (a metric, not
// used by the search): beyond it the count is a lower bound and no state file is written.
const MaxStatesKept = 8 << 20

func (e *explorer) addState(k uint64) {
	if len(e.states) >= MaxStatesKept {
		if _, ok := e.states[k]; !ok {
			e.st.StatesBeyondCap++
		}
		return
	}
	e.states[k] = struct{}{}
}

func (e *explorer) account(s *Sched, o Outcome, prefix, sleep []TransKey) {
	st := e.st
	for i := len(prefix); i < len(s.nodes); i++ {
		if s.nodes[i].chosen >= 0 {
			st.Transitions++
			e.addState(s.nodes[i].stateK)
		}
	}
	if len(prefix) > 0 && len(s.nodes) >= len(prefix) {
		// the last prefix step is a new transition of this execution
		st.Transitions++
		e.addState(s.nodes[len(prefix)-1].stateK)
	}
	if len(s.nodes) > st.MaxDepth {
		st.MaxDepth = len(s.nodes)
	}
	st.Outcomes[o.Kind]++
	switch o.Kind {
	case "sleep-blocked":
		st.SleepBlocked++
		return
	case "horizon":
		st.Horizon++
		st.Exhaustive = false
		return
	}
	st.Executions++
	defer func() {
		for n := range s.noteSet {
			st.Notes[n]++
		}
	}()
	key, msg := "", ""
	switch {
	case o.Kind == "panic":
		if e.cfg.Check != nil {
			key, msg = e.cfg.Check(s.x, o)
		}
		if msg == "" {
			key, msg = "panic:"+firstLine(o.Detail), "panic: "+o.Detail+"\n"+o.Stack
		}
	case o.Kind == "deadlock" && !e.cfg.AllowDeadlock:
		key, msg = "deadlock", "deadlock: "+o.Detail
	default:
		if e.cfg.Check != nil {
			key, msg = e.cfg.Check(s.x, o)
		}
	}
	if len(st.SampleTraces) < 2 && st.Executions%97 == 1 {
		_, tr := e.replayTrace(s)
		st.SampleTraces = append(st.SampleTraces, tr)
	}
	if msg == "" {
		return
	}
	if e.vkeys[key] {
		st.Dropped++
		return
	}
	e.vkeys[key] = true
	// replay twice with tracing: must reproduce the same violation
	choices := make([]TransKey, 0, len(s.nodes))
	for _, nd := range s.nodes {
		if nd.chosen >= 0 {
			choices = append(choices, nd.enabled[nd.chosen].key)
		}
	}
	var tr []string
	for k := 0; k < 2; k++ {
		s2, o2 := e.runOne(choices, nil, true)
		k2, m2 := "", ""
		if o2.Kind == "panic" {
			if e.cfg.Check != nil {
				k2, m2 = e.cfg.Check(s2.x, o2)
			}
			if m2 == "" {
				k2 = "panic:" + firstLine(o2.Detail)
			}
		} else if o2.Kind == "deadlock" && !e.cfg.AllowDeadlock {
			k2 = "deadlock"
		} else if e.cfg.Check != nil {
			k2, m2 = e.cfg.Check(s2.x, o2)
		}
		_ = m2
		if k2 != key || o2.Kind != o.Kind {
			fmt.Fprintf(os.Stderr, "INTERNAL: violation not reproducible on replay: first %q (%s), replay %q (%s %s)\n", key, o.Kind, k2, o2.Kind, o2.Detail)
			os.Exit(2)
		}
		tr = s2.trace
	}
	if len(st.Violations) < 10 {
		st.Violations = append(st.Violations, Violation{Key: key, Msg: msg, Choices: choices, Trace: tr, Outcome: o.Kind})
	}
}

func (e *explorer) replayTrace(s *Sched) (Outcome, []string) {
	choices := make([]TransKey, 0, len(s.nodes))
	for _, nd := range s.nodes {
		if nd.chosen >= 0 {
			choices = append(choices, nd.enabled[nd.chosen].key)
		}
	}
	s2, o2 := e.runOne(choices, nil, true)
	return o2, s2.trace
}

// Replay runs one recorded choice vector with tracing and returns the violation (if any).
func Replay(cfg Config, choices []TransKey) (Outcome, string, string, []string) {
	if cfg.Horizon == 0 {
		cfg.Horizon = 5000
	}
	e := &explorer{cfg: cfg, st: &Stats{Outcomes: map[string]int64{}, Notes: map[string]int64{}}, states: map[uint64]struct{}{}, vkeys: map[string]bool{}}
	s, o := e.runOne(choices, nil, true)
	key, msg := "", ""
	switch {
	case o.Kind == "diverged":
		return o, "", "", s.trace
	case o.Kind == "panic":
		if cfg.Check != nil {
			key, msg = cfg.Check(s.x, o)
		}
		if msg == "" {
			key, msg = "panic:"+firstLine(o.Detail), "panic: "+o.Detail+"\n"+o.Stack
		}
	case o.Kind == "deadlock" && !cfg.AllowDeadlock:
		key, msg = "deadlock", "deadlock: "+o.Detail
	default:
		if cfg.Check != nil {
			key, msg = cfg.Check(s.x, o)
		}
	}
	return o, key, msg, s.trace
}

// RunOnce runs body under the scheduler with default choices only (deterministic single schedule);
// used by sequential harnesses that link instrumented packages.
func RunOnce(body func()) Outcome {
	e := &explorer{cfg: Config{Horizon: 1 << 30, Body: func(*Exec) { body() }}, st: &Stats{Outcomes: map[string]int64{}, Notes: map[string]int64{}}, states: map[uint64]struct{}{}}
	_, o := e.runOne(nil, nil, false)
	return o
}

func firstLine(s string) string {
	if i := strings.IndexByte(s, '\n'); i >= 0 {
		return s[:i]
	}
	return s
}

// Aborting reports whether the current execution is being torn down.
func Aborting() bool { return cur != nil && cur.aborting }

// EnvGet / EnvSet: per-execution key/value storage (the mock clock lives under "clock").
func EnvGet(k string) any {
	if cur == nil {
		if fs := free; fs != nil {
			fs.mu.Lock()
			defer fs.mu.Unlock()
			return fs.env[k]
		}
		return nil
	}
	return cur.env[k]
}

func EnvSet(k string, v any) {
	if fs := free; cur == nil && fs != nil {
		fs.mu.Lock()
		fs.env[k] = v
		fs.mu.Unlock()
	}
	if cur != nil {
		cur.env[k] = v
	}
}

var _ = runtime.Gosched
