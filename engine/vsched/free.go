package vsched

// Free-running mode: the harness bodies of an exploration are run with real goroutines and real
// synchronisation (every shim passes through) so that a binary built with -race can observe
// unsynchronised accesses. The cooperative scheduler cannot see those: its hand-offs are
// happens-before edges, and scheduling points exist only at synchronisation operations, so the
// exhaustive verdict of an exploration presupposes data-race freedom of the code it drives. This
// pass checks that presupposition; it decides nothing else (oracles are not evaluated).

import (
	"bytes"
	"fmt"
	"path/filepath"
	"runtime/debug"
	"strings"
	"math/rand"
	"os"
	"runtime"
	"strconv"
	"sync"
	"time"
)

type freeState struct {
	mu       sync.Mutex
	rng      *rand.Rand
	env      map[string]any
	notes    map[string]bool
	deadline time.Time
	timedOut bool
	panics   []string // "value\nstack" of panics recovered in goroutines of this run
}

// recoverPanic is deferred in every goroutine of a free run: a panic must not take the process down (the
// remaining runs still have to happen); it is reported by exploreFree.
func (fs *freeState) recoverPanic() {
	if p := recover(); p != nil {
		fs.mu.Lock()
		fs.panics = append(fs.panics, fmt.Sprintf("%v\n%s", p, debug.Stack()))
		fs.mu.Unlock()
	}
}

var free *freeState

// FreeRuns is the number of free-running executions per configuration (0: explore normally).
var FreeRuns = func() int { n, _ := strconv.Atoi(os.Getenv("VSCHED_FREE")); return n }()

// Free reports whether the free-running mode is active.
func Free() bool { return free != nil }

func exploreFree(cfg Config, st *Stats) {
	for r := 0; r < FreeRuns; r++ {
		fs := &freeState{rng: rand.New(rand.NewSource(int64(r)*7919 + int64(strHash(cfg.Name)))), env: map[string]any{}, notes: map[string]bool{},
			deadline: time.Now().Add(20 * time.Second)}
		free = fs
		x := &Exec{s: &Sched{noteSet: fs.notes}}
		done := make(chan struct{})
		go func() {
			defer close(done)
			defer fs.recoverPanic()
			cfg.Body(x)
		}()
		select {
		case <-done:
		case <-time.After(30 * time.Second):
			fs.timedOut = true
		}
		if fs.timedOut {
			st.Outcomes["free-timeout"]++
		} else {
			st.Outcomes["free-ok"]++
		}
		st.Executions++
		fs.mu.Lock()
		for _, p := range fs.panics {
			site := panicSite(p)
			if site == "" {
				st.Outcomes["free-panic-in-harness-code"]++
				continue // not in the code under test: a harness or fake that is not safe for real concurrency
			}
			st.Outcomes["free-panic"]++
			if len(st.Violations) < 3 {
				st.Violations = append(st.Violations, Violation{Key: "panic-in-free-run " + site, Msg: "a goroutine of the code under test panicked while the harness body ran with real goroutines (free-running pass): " + p, Outcome: "panic"})
			}
		}
		fs.mu.Unlock()
		// goroutines left over stay blocked for good (the controlled mode would have unwound them)
		free = nil
	}
}

// panicSite returns file:function of the innermost frame below the panic that belongs to the repository
// under test (not to the verification overlay, the runtime or a third-party module), or "".
func panicSite(p string) string {
	lines := strings.Split(p, "\n")
	past := false
	for i := 0; i+1 < len(lines); i++ {
		if strings.HasPrefix(lines[i], "panic(") {
			past = true
			continue
		}
		if !past || !strings.HasPrefix(lines[i+1], "\t") {
			continue
		}
		file := strings.TrimSpace(lines[i+1])
		if j := strings.LastIndex(file, ":"); j > 0 {
			file = file[:j]
		}
		if strings.Contains(file, "/go1.") || strings.Contains(file, "/pkg/mod/") || strings.Contains(file, "/internal/verif/") || strings.Contains(file, "zz_verif") || strings.Contains(file, "/.work/") && strings.Contains(file, "/mods/") {
			if strings.Contains(file, "/internal/verif/") || strings.Contains(file, "zz_verif") {
				return "" // the first non-runtime frame is harness code
			}
			continue
		}
		fn := lines[i]
		if k := strings.LastIndex(fn, "("); k > 0 {
			fn = fn[:k]
		}
		if k := strings.LastIndex(fn, "/"); k >= 0 {
			fn = fn[k+1:]
		}
		return filepath.Base(file) + ":" + fn
	}
	return ""
}

func freeYield() {
	fs := free
	if fs == nil {
		return
	}
	fs.mu.Lock()
	y := fs.rng.Intn(3) == 0
	fs.mu.Unlock()
	if y {
		runtime.Gosched()
	}
}

func freeChoose(n int) int {
	fs := free
	fs.mu.Lock()
	defer fs.mu.Unlock()
	return fs.rng.Intn(n)
}

// freeQuiesce waits until every other goroutine of the process is blocked.
func freeQuiesce() {
	fs := free
	for {
		runtime.Gosched()
		if othersBlocked() {
			runtime.Gosched()
			if othersBlocked() {
				return
			}
		}
		if time.Now().After(fs.deadline) {
			fs.timedOut = true
			return
		}
	}
}

func freeWait(enabled func() bool) {
	fs := free
	for !enabled() {
		runtime.Gosched()
		if time.Now().After(fs.deadline) {
			fs.timedOut = true
			return
		}
	}
}

var stackBuf = make([]byte, 1<<20)

func othersBlocked() bool {
	var n int
	for {
		n = runtime.Stack(stackBuf, true)
		if n < len(stackBuf) {
			break
		}
		stackBuf = make([]byte, 2*len(stackBuf))
	}
	first := true
	for _, ln := range bytes.Split(stackBuf[:n], []byte("\n")) {
		if !bytes.HasPrefix(ln, []byte("goroutine ")) || !bytes.HasSuffix(ln, []byte("]:")) {
			continue
		}
		if first { // the caller
			first = false
			continue
		}
		i := bytes.IndexByte(ln, '[')
		state := ln[i+1:]
		for _, busy := range []string{"runnable", "running", "sleep", "preempted", "GC assist", "copystack"} {
			if bytes.HasPrefix(state, []byte(busy)) {
				return false
			}
		}
	}
	return true
}

// RunFree runs body once in free-running mode (real goroutines, every shim passes through, Quiesce waits
// until all other goroutines are blocked) and reports how it ended. Used for whole-process cases that
// involve goroutines the controlled scheduler cannot own (a real HTTP listener).
func RunFree(body func()) Outcome {
	fs := &freeState{rng: rand.New(rand.NewSource(1)), env: map[string]any{}, notes: map[string]bool{}, deadline: time.Now().Add(60 * time.Second)}
	free = fs
	defer func() { free = nil }()
	done := make(chan struct{})
	go func() {
		defer close(done)
		defer fs.recoverPanic()
		body()
	}()
	select {
	case <-done:
	case <-time.After(120 * time.Second):
		return Outcome{Kind: "free-timeout", Detail: "the free-running body did not finish"}
	}
	fs.mu.Lock()
	defer fs.mu.Unlock()
	if len(fs.panics) > 0 {
		return Outcome{Kind: "panic", Detail: firstLine(fs.panics[0]), Stack: fs.panics[0]}
	}
	if fs.timedOut {
		return Outcome{Kind: "free-timeout", Detail: "quiescence was not reached"}
	}
	return Outcome{Kind: "ok"}
}
