package vsched

// Free-running mode: the harness bodies of an exploration are run with real goroutines and real
// synchronisation (every shim passes through) so that a binary built with -race can observe
// unsynchronised accesses. The cooperative scheduler cannot see those: its hand-offs are
// happens-before edges, and scheduling points exist only at synchronisation operations, so the
// exhaustive verdict of an exploration presupposes data-race freedom of the code it drives. This
// pass checks that presupposition; it decides nothing else (oracles are not evaluated).

import (
	"bytes"
	"math/rand"
	"os"
	"runtime"
	"strconv"
	"sync"
	"time"
)

type freeState struct {
	mu       sync.Mutex
	rng      *rand.Rand
	env      map[string]any
	notes    map[string]bool
	deadline time.Time
	timedOut bool
}

var free *freeState

// FreeRuns is the number of free-running executions per configuration (0: explore normally).
var FreeRuns = func() int { n, _ := strconv.Atoi(os.Getenv("VSCHED_FREE")); return n }()

// Free reports whether the free-running mode is active.
func Free() bool { return free != nil }

func exploreFree(cfg Config, st *Stats) {
	for r := 0; r < FreeRuns; r++ {
		fs := &freeState{rng: rand.New(rand.NewSource(int64(r)*7919 + int64(strHash(cfg.Name)))), env: map[string]any{}, notes: map[string]bool{},
			deadline: time.Now().Add(20 * time.Second)}
		free = fs
		x := &Exec{s: &Sched{noteSet: fs.notes}}
		done := make(chan struct{})
		go func() {
			defer close(done)
			defer func() { recover() }()
			cfg.Body(x)
		}()
		select {
		case <-done:
		case <-time.After(30 * time.Second):
			fs.timedOut = true
		}
		if fs.timedOut {
			st.Outcomes["free-timeout"]++
		} else {
			st.Outcomes["free-ok"]++
		}
		st.Executions++
		// goroutines left over stay blocked for good (the controlled mode would have unwound them)
		free = nil
	}
}

func freeYield() {
	fs := free
	if fs == nil {
		return
	}
	fs.mu.Lock()
	y := fs.rng.Intn(3) == 0
	fs.mu.Unlock()
	if y {
		runtime.Gosched()
	}
}

func freeChoose(n int) int {
	fs := free
	fs.mu.Lock()
	defer fs.mu.Unlock()
	return fs.rng.Intn(n)
}

// freeQuiesce waits until every other goroutine of the process is blocked.
func freeQuiesce() {
	fs := free
	for {
		runtime.Gosched()
		if othersBlocked() {
			runtime.Gosched()
			if othersBlocked() {
				return
			}
		}
		if time.Now().After(fs.deadline) {
			fs.timedOut = true
			return
		}
	}
}

func freeWait(enabled func() bool) {
	fs := free
	for !enabled() {
		runtime.Gosched()
		if time.Now().After(fs.deadline) {
			fs.timedOut = true
			return
		}
	}
}

var stackBuf = make([]byte, 1<<20)

func othersBlocked() bool {
	var n int
	for {
		n = runtime.Stack(stackBuf, true)
		if n < len(stackBuf) {
			break
		}
		stackBuf = make([]byte, 2*len(stackBuf))
	}
	first := true
	for _, ln := range bytes.Split(stackBuf[:n], []byte("\n")) {
		if !bytes.HasPrefix(ln, []byte("goroutine ")) || !bytes.HasSuffix(ln, []byte("]:")) {
			continue
		}
		if first { // the caller
			first = false
			continue
		}
		i := bytes.IndexByte(ln, '[')
		state := ln[i+1:]
		for _, busy := range []string{"runnable", "running", "sleep", "preempted", "GC assist", "copystack"} {
			if bytes.HasPrefix(state, []byte(busy)) {
				return false
			}
		}
	}
	return true
}
