package vsched

import (
	"cmp"
	"fmt"
	"reflect"
	"sort"
	"time"
	"unsafe"
)

// chanID returns the identity of a channel value (address of its runtime header).
func chanID[C any](c C) uintptr {
	// a channel value is a single pointer word
	return uintptr(*(*unsafe.Pointer)(unsafe.Pointer(&c)))
}

func objID(o any) uintptr {
	if o == nil {
		return 1
	}
	v := reflect.ValueOf(o)
	switch v.Kind() {
	case reflect.Pointer, reflect.Chan, reflect.Map, reflect.UnsafePointer, reflect.Func, reflect.Slice:
		return v.Pointer()
	case reflect.String:
		return uintptr(strHash(v.String())) | 1
	}
	panic(fmt.Sprintf("vsched: objID of %T", o))
}

func recvRef[T any](c <-chan T) *chanRef {
	if c == nil {
		return nil
	}
	var z T
	_, isTime := any(z).(time.Time)
	return &chanRef{
		id:    chanID(c),
		ref:   c,
		clock: isTime,
		lenf:  func() int { return len(c) },
		capf: func() int { return cap(c) },
		closed: func() bool {
			if len(c) > 0 {
				return false
			}
			select {
			case _, ok := <-c:
				if ok {
					panic("vsched: probe consumed a value")
				}
				return true
			default:
				return false
			}
		},
	}
}

func sendRef[T any](c chan<- T) *chanRef {
	if c == nil {
		return nil
	}
	return &chanRef{id: chanID(c), ref: c, lenf: func() int { return len(c) }, capf: func() int { return cap(c) }}
}

// Send is `c <- v`.
func Send[T any](c chan<- T, v T) {
	s := cur
	if s == nil {
		freeYield()
		c <- v
		return
	}
	t := s.yield(&Op{kind: opSend, ch: sendRef(c)})
	s.rvS = nil
	c <- v
	s.afterSend(t)
}

// Recv is `<-c`.
func Recv[T any](c <-chan T) T {
	s := cur
	if s == nil {
		freeYield()
		return <-c
	}
	t := s.yield(&Op{kind: opRecv, ch: recvRef(c)})
	t.rv = rvNone
	return <-c
}

// Recv2 is `v, ok := <-c`.
func Recv2[T any](c <-chan T) (T, bool) {
	s := cur
	if s == nil {
		freeYield()
		v, ok := <-c
		return v, ok
	}
	t := s.yield(&Op{kind: opRecv, ch: recvRef(c)})
	t.rv = rvNone
	v, ok := <-c
	return v, ok
}

// Close is `close(c)`.
func Close[T any](c chan<- T) {
	s := cur
	if s == nil {
		close(c)
		return
	}
	s.yield(&Op{kind: opClose, ch: sendRef(c)})
	close(c)
	s.closedSet[chanID(c)] = true
	s.keep[chanID(c)] = c
}

// Case describes one arm of a select.
type Case struct {
	c selCase
}

func CaseSend[T any](c chan<- T) Case { return Case{selCase{send: true, ch: sendRef(c)}} }
func CaseRecv[T any](c <-chan T) Case { return Case{selCase{send: false, ch: recvRef(c)}} }

// Select decides which arm of a select statement fires; -1 is the default arm. The arm's real
// operation is then performed with SelSend / SelRecv / SelRecv2. In pass-through mode it performs a
// real select through reflection and leaves the operation to the Sel* call (see selPending).
func Select(hasDefault bool, cases ...Case) int {
	s := cur
	if s == nil {
		panic("vsched.Select in pass-through mode: use instrumented select fallbacks")
	}
	op := &Op{kind: opSelect, hasDefault: hasDefault, cases: make([]selCase, len(cases))}
	for i, c := range cases {
		op.cases[i] = c.c
	}
	t := s.yield(op)
	return t.arm
}

// SelSend performs the send of a chosen select arm.
func SelSend[T any](c chan<- T, v T) {
	s := cur
	if s == nil {
		c <- v
		return
	}
	t := s.rvS // set when this send is the sending half of a rendezvous (then s.active is the receiver)
	if t == nil {
		t = s.active
	}
	s.rvS = nil
	c <- v
	s.afterSend(t)
}

// SelRecv performs the receive of a chosen select arm.
func SelRecv[T any](c <-chan T) T {
	if s := cur; s != nil {
		s.active.rv = rvNone
	}
	return <-c
}

func SelRecv2[T any](c <-chan T) (T, bool) {
	if s := cur; s != nil {
		s.active.rv = rvNone
	}
	v, ok := <-c
	return v, ok
}

// On reports whether a controlled execution is active; instrumented select statements keep the
// original statement for the pass-through case: `if vsched.On() { switch vsched.Select... } else { select {...} }`.
func On() bool { return cur != nil }

// MapOrder returns the keys of m in sorted order (deterministic iteration).
func MapOrder[K cmp.Ordered, V any](m map[K]V) []K {
	ks := make([]K, 0, len(m))
	for k := range m {
		ks = append(ks, k)
	}
	sort.Slice(ks, func(i, j int) bool { return ks[i] < ks[j] })
	return ks
}

// MapOrderAny is MapOrder for key types that are not ordered (sorted by their printed form).
func MapOrderAny[K comparable, V any](m map[K]V) []K {
	ks := make([]K, 0, len(m))
	for k := range m {
		ks = append(ks, k)
	}
	sort.Slice(ks, func(i, j int) bool { return fmt.Sprint(ks[i]) < fmt.Sprint(ks[j]) })
	return ks
}
