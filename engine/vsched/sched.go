// Package vsched is a cooperative, controlled scheduler for channel based Go code.
//
// Exactly one registered thread runs at a time; every synchronisation operation of instrumented
// code is a scheduling point at which the thread publishes its pending operation and the explorer
// decides which enabled transition fires next. With no scheduler installed (cur == nil) every shim
// is a pass-through to the real operation.
package vsched

import (
	"fmt"
	"os"
	"runtime"
	"runtime/debug"
	"sort"
	"strings"
	"sync"
)

type opKind uint8

const (
	opStart opKind = iota
	opSend
	opRecv
	opClose
	opSelect
	opSync    // generic sync object operation (WaitGroup, Mutex, Once ...) with its own enabledness
	opChoose  // environment choice, local to the thread
	opQuiesce // enabled only when nothing else is
	opGlobal  // visible operation that conflicts with everything (clock advance, cancel)
	opAccess  // visible operation on declared objects
	opExit
)

var kindName = [...]string{"start", "send", "recv", "close", "select", "sync", "choose", "quiesce", "global", "access", "exit"}

// chanRef describes one real channel as seen at an operation site.
type chanRef struct {
	id     uintptr
	lenf   func() int
	capf   func() int
	closed func() bool // probe (receive capable channels); nil for send-only views
	clock  bool        // channel of time.Time: fed by the mock clock
	ref    any         // the channel itself: keeps it alive so its address is not reused within the execution
}

type selCase struct {
	send bool
	ch   *chanRef // nil for a nil channel
}

type access struct {
	obj   uintptr
	write bool
}

// Op is a pending operation of a parked thread.
type Op struct {
	kind       opKind
	ch         *chanRef
	cases      []selCase
	hasDefault bool
	obj        uintptr
	write      bool
	enabled    func() bool
	n          int // opChoose: number of alternatives
	acc        []access
	label      string
}

type wakeMsg uint8

const (
	wkGo wakeMsg = iota
	wkAbort
)

type rvMode uint8

const (
	rvNone rvMode = iota
	rvSend
	rvRecv
)

// Thread is one registered goroutine.
type Thread struct {
	ID      string // schedule independent hierarchical id
	idx     int    // creation index in this execution
	name    string
	wake    chan wakeMsg
	exited  chan struct{}
	pending *Op
	steps   int
	nspawn  int
	done    bool
	arm     int
	rv      rvMode
	handoff *Thread
	hash    uint64
	daemon  bool
}

// TransKey identifies a transition independently of object addresses.
type TransKey struct {
	T    string `json:"t"`
	Step int    `json:"s"`
	Arm  int    `json:"a"`
	P    string `json:"p,omitempty"`
	PArm int    `json:"pa,omitempty"`
}

func (k TransKey) String() string {
	if k.P != "" {
		return fmt.Sprintf("%s#%d/%d<>%s/%d", k.T, k.Step, k.Arm, k.P, k.PArm)
	}
	return fmt.Sprintf("%s#%d/%d", k.T, k.Step, k.Arm)
}

// trans is an enabled transition at a node, with what is needed to decide dependence.
type trans struct {
	key     TransKey
	t, p    *Thread
	arm     int
	parm    int
	global  bool
	local   bool // touches nothing shared (start, choose)
	acc     []access
	desc    string
	quiesce bool
}

func dependent(a, b *trans) bool {
	if a.t == b.t || (a.p != nil && (a.p == b.t || a.p == b.p)) || (b.p != nil && b.p == a.t) {
		return true
	}
	if a.local || b.local {
		return false
	}
	if a.global || b.global || a.quiesce || b.quiesce {
		return true
	}
	for _, x := range a.acc {
		for _, y := range b.acc {
			if x.obj == y.obj && (x.write || y.write) {
				return true
			}
		}
	}
	return false
}

// node is one decision point of an execution.
type node struct {
	enabled []*trans
	sleep   []*trans // asleep on entry (subset of enabled by key)
	chosen  int
	stateK  uint64
}

// Outcome of one execution.
type Outcome struct {
	Kind   string // "ok", "panic", "deadlock", "horizon", "sleep-blocked", "diverged"
	Detail string
	Stack  string
}

// Sched is the scheduler of one execution.
type Sched struct {
	threads  []*Thread
	active   *Thread
	aborting bool
	ended    bool
	doneCh   chan struct{}
	outcome  Outcome

	// exploration
	prefix    []TransKey
	initSleep []TransKey
	nodes     []*node
	sleep     []*trans
	horizon   int
	traceOn   bool
	trace     []string

	closedSet map[uintptr]bool
	objHash   map[uintptr]uint64
	env       map[string]any
	live      sync.WaitGroup
	nTrans    int64
	x         *Exec
	noteSet   map[string]bool
	rvS       *Thread // sender of the rendezvous in progress
	keep      map[uintptr]any // objects whose identity (address) is recorded: kept alive against address reuse
}

var cur *Sched

// Active reports whether a controlled execution is in progress.
func Active() bool { return cur != nil && !cur.aborting }

func (s *Sched) park(t *Thread) {
	m := <-t.wake
	if m == wkAbort {
		runtime.Goexit()
	}
}

func (s *Sched) end(o Outcome) {
	if s.ended {
		return
	}
	s.ended = true
	s.outcome = o
	close(s.doneCh)
}

// yield publishes op as the pending operation of the active thread and returns when the scheduler
// has chosen that thread to perform it.
func (s *Sched) yield(op *Op) *Thread {
	if s.aborting {
		runtime.Goexit()
	}
	t := s.active
	if t == nil {
		panic("vsched: shim operation outside a registered thread")
	}
	t.pending = op
	s.dispatch(t)
	t.pending = nil
	return t
}

// dispatch is run by thread me (which has just published its pending op or is exiting): it hands the
// baton back after a rendezvous, or picks and starts the next transition. It returns when me has
// been chosen (never returns for an exiting thread: the caller checks me.done).
func (s *Sched) dispatch(me *Thread) {
	if h := me.handoff; h != nil {
		me.handoff = nil
		s.active = h
		h.wake <- wkGo
		if me.done {
			return
		}
		s.park(me)
		return
	}
	tr := s.pick()
	if tr == nil {
		// execution over (deadlock, horizon, blocked, or finished): wait to be torn down
		if me.done {
			return
		}
		s.park(me)
		return
	}
	s.fire(tr, me)
}

func (s *Sched) fire(tr *trans, me *Thread) {
	s.nTrans++
	tr.t.steps++
	tr.t.arm = tr.arm
	if tr.p != nil {
		S, R := tr.t, tr.p
		R.steps++
		R.arm = tr.parm
		S.rv, R.rv = rvSend, rvRecv
		R.handoff = S
		s.active = R
		s.rvS = S
		if S != me {
			S.wake <- wkGo
		}
		if R != me {
			R.wake <- wkGo
		}
		if me != S && me != R && !me.done {
			s.park(me)
		}
		return
	}
	s.active = tr.t
	if tr.t != me {
		tr.t.wake <- wkGo
		if !me.done {
			s.park(me)
		}
	}
}

// afterSend is called by a sender after its real send completed.
func (s *Sched) afterSend(t *Thread) {
	if t.rv == rvSend {
		t.rv = rvNone
		s.park(t)
	}
}

func (s *Sched) isClosed(c *chanRef) bool {
	if s.closedSet[c.id] {
		return true
	}
	if c.closed != nil && c.closed() {
		s.closedSet[c.id] = true
		s.keep[c.id] = c.ref
		return true
	}
	return false
}

// blocking reports whether the pending op really blocks (a select with default only polls).
func blocking(op *Op) bool { return !(op.kind == opSelect && op.hasDefault) }

// ClockObj is the pseudo object standing for the mock clock: reads of the time and receives from
// timer channels read it, timer creation and Advance write it.
const ClockObj uintptr = 2

func chanAcc(c *chanRef, write bool) []access {
	if c.clock {
		return []access{{c.id, write}, {ClockObj, false}}
	}
	return []access{{c.id, write}}
}

// enabledTransitions computes all enabled transitions of the current global state.
func (s *Sched) enabledTransitions() []*trans {
	var out []*trans
	var quiesce []*trans
	// purely local operations (thread start, environment choice) form a singleton persistent set
	for _, t := range s.threads {
		if t.done || t.pending == nil {
			continue
		}
		if t.pending.kind == opStart {
			return []*trans{{key: TransKey{T: t.ID, Step: t.steps}, t: t, local: true, desc: "start"}}
		}
	}
	for _, a := range s.threads {
		if a.done || a.pending == nil || a.pending.kind != opChoose {
			continue
		}
		for k := 0; k < a.pending.n; k++ {
			out = append(out, &trans{key: TransKey{T: a.ID, Step: a.steps, Arm: k}, t: a, arm: k, local: true, desc: fmt.Sprintf("choose %s=%d", a.pending.label, k)})
		}
		return out
	}
	recvReady := func(c *chanRef) (bool, bool) { // ready, readOnly
		if c.lenf() > 0 {
			return true, false
		}
		if s.isClosed(c) {
			if os.Getenv("VSCHED_DEBUG") != "" {
				fmt.Fprintf(os.Stderr, "DEBUG closed chan id=%x inSet=%v node=%d\n", c.id, s.closedSet[c.id], len(s.nodes))
			}
			return true, true
		}
		return false, false
	}
	// receivers parked on a channel id, for rendezvous pairing
	type rcv struct {
		t   *Thread
		arm int
	}
	var rcvs map[uintptr][]rcv
	needRcvs := func() {
		if rcvs != nil {
			return
		}
		rcvs = map[uintptr][]rcv{}
		for _, r := range s.threads {
			if r.done || r.pending == nil {
				continue
			}
			switch r.pending.kind {
			case opRecv:
				if r.pending.ch != nil {
					rcvs[r.pending.ch.id] = append(rcvs[r.pending.ch.id], rcv{r, 0})
				}
			case opSelect:
				for i, c := range r.pending.cases {
					if !c.send && c.ch != nil {
						rcvs[c.ch.id] = append(rcvs[c.ch.id], rcv{r, i})
					}
				}
			}
		}
	}
	sendAlts := func(t *Thread, arm int, c *chanRef, out *[]*trans) {
		if c == nil {
			return
		}
		if s.closedSet[c.id] {
			*out = append(*out, &trans{key: TransKey{T: t.ID, Step: t.steps, Arm: arm}, t: t, arm: arm, acc: chanAcc(c, true), desc: "send-on-closed"})
			return
		}
		if cp := c.capf(); cp > 0 {
			if c.lenf() < cp {
				*out = append(*out, &trans{key: TransKey{T: t.ID, Step: t.steps, Arm: arm}, t: t, arm: arm, acc: chanAcc(c, true), desc: "send"})
			}
			return
		}
		needRcvs()
		for _, r := range rcvs[c.id] {
			if r.t == t {
				continue
			}
			if !blocking(t.pending) && !blocking(r.t.pending) {
				continue
			}
			*out = append(*out, &trans{key: TransKey{T: t.ID, Step: t.steps, Arm: arm, P: r.t.ID, PArm: r.arm}, t: t, arm: arm, p: r.t, parm: r.arm, acc: chanAcc(c, true), desc: "rendezvous"})
		}
	}
	for _, t := range s.threads {
		if t.done || t.pending == nil {
			continue
		}
		op := t.pending
		switch op.kind {
		case opSend:
			sendAlts(t, 0, op.ch, &out)
		case opRecv:
			if op.ch == nil {
				continue
			}
			if ok, ro := recvReady(op.ch); ok {
				out = append(out, &trans{key: TransKey{T: t.ID, Step: t.steps}, t: t, acc: chanAcc(op.ch, !ro), desc: "recv"})
			}
		case opClose:
			out = append(out, &trans{key: TransKey{T: t.ID, Step: t.steps}, t: t, acc: chanAcc(op.ch, true), desc: "close"})
		case opSelect:
			n0 := len(out)
			for i, c := range op.cases {
				if c.ch == nil {
					continue
				}
				if c.send {
					sendAlts(t, i, c.ch, &out)
				} else if ok, ro := recvReady(c.ch); ok {
					out = append(out, &trans{key: TransKey{T: t.ID, Step: t.steps, Arm: i}, t: t, arm: i, acc: chanAcc(c.ch, !ro), desc: "recv"})
				}
			}
			if op.hasDefault && len(out) == n0 {
				// default is ready only if no arm is; also not if a rendezvous with this thread as receiver exists
				ready := false
				for _, c := range op.cases {
					if c.ch == nil || c.send {
						continue
					}
					for _, o := range s.threads {
						if o == t || o.done || o.pending == nil || !blocking(o.pending) {
							continue
						}
						if o.pending.kind == opSend && o.pending.ch != nil && o.pending.ch.id == c.ch.id && c.ch.capf() == 0 && !s.closedSet[c.ch.id] {
							ready = true
						}
						if o.pending.kind == opSelect {
							for _, oc := range o.pending.cases {
								if oc.send && oc.ch != nil && oc.ch.id == c.ch.id && c.ch.capf() == 0 {
									ready = true
								}
							}
						}
					}
				}
				if !ready {
					var acc []access
					for _, c := range op.cases {
						if c.ch != nil {
							acc = append(acc, access{c.ch.id, false})
						}
					}
					out = append(out, &trans{key: TransKey{T: t.ID, Step: t.steps, Arm: -1}, t: t, arm: -1, acc: acc, desc: "default"})
				}
			}
		case opSync:
			if op.enabled == nil || op.enabled() {
				out = append(out, &trans{key: TransKey{T: t.ID, Step: t.steps}, t: t, acc: []access{{op.obj, op.write}}, desc: op.label})
			}
		case opAccess:
			out = append(out, &trans{key: TransKey{T: t.ID, Step: t.steps}, t: t, acc: op.acc, desc: op.label})
		case opGlobal:
			if op.enabled == nil || op.enabled() {
				out = append(out, &trans{key: TransKey{T: t.ID, Step: t.steps}, t: t, global: true, desc: op.label})
			}
		case opQuiesce:
			quiesce = append(quiesce, &trans{key: TransKey{T: t.ID, Step: t.steps}, t: t, quiesce: true, desc: "quiesce:" + op.label})
		}
	}
	if len(out) == 0 {
		return quiesce
	}
	return out
}

func (t *trans) describe() string {
	if t.p != nil {
		return fmt.Sprintf("%s(%s) %s arm%d <> %s(%s) arm%d", t.t.ID, t.t.name, t.desc, t.arm, t.p.ID, t.p.name, t.parm)
	}
	return fmt.Sprintf("%s(%s) %s arm%d", t.t.ID, t.t.name, t.desc, t.arm)
}

func mix(a, b uint64) uint64 {
	x := a ^ (b + 0x9e3779b97f4a7c15 + (a << 6) + (a >> 2))
	x ^= x >> 33
	x *= 0xff51afd7ed558ccd
	x ^= x >> 33
	return x
}

func strHash(s string) uint64 {
	var h uint64 = 1469598103934665603
	for i := 0; i < len(s); i++ {
		h ^= uint64(s[i])
		h *= 1099511628211
	}
	return h
}

// stateKey is the happens-before key of the current prefix.
func (s *Sched) stateKey() uint64 {
	var k uint64
	for _, t := range s.threads {
		k += mix(strHash(t.ID), t.hash)
	}
	return k
}

func (s *Sched) updateHash(tr *trans) {
	h := mix(tr.t.hash, uint64(tr.arm+7)*31+strHash(tr.desc))
	h = mix(h, s.objHash[0]) // epoch of the last globally conflicting transition
	for _, a := range tr.acc {
		oh := s.objHash[a.obj]
		if tr.t.pending != nil && tr.t.pending.ch != nil && tr.t.pending.ch.id == a.obj {
			s.keep[a.obj] = tr.t.pending.ch.ref
		}
		h = mix(h, oh)
		if a.write {
			s.objHash[a.obj] = mix(oh, h)
		}
	}
	if tr.global || tr.quiesce {
		// ordered against everything: chain through a global object
		oh := s.objHash[0]
		h = mix(h, oh)
		s.objHash[0] = mix(oh, h)
	}
	if tr.p != nil {
		h = mix(h, tr.p.hash)
		tr.p.hash = mix(h, 0x1234)
	}
	tr.t.hash = h
}

// pick chooses the next transition according to prefix / sleep sets / default policy, records the
// node, and returns nil if the execution is over.
func (s *Sched) pick() *trans {
	if s.ended {
		return nil
	}
	en := s.enabledTransitions()
	if len(en) == 0 {
		var bl []string
		for _, t := range s.threads {
			if !t.done && t.pending != nil {
				bl = append(bl, fmt.Sprintf("%s(%s):%s", t.ID, t.name, opString(t.pending)))
			}
		}
		s.end(Outcome{Kind: "deadlock", Detail: strings.Join(bl, "; ")})
		return nil
	}
	i := len(s.nodes)
	if i >= s.horizon {
		s.end(Outcome{Kind: "horizon"})
		return nil
	}
	// canonical order: active thread first, then creation index, arm, partner
	act := s.active
	sort.SliceStable(en, func(a, b int) bool {
		x, y := en[a], en[b]
		if (x.t == act) != (y.t == act) {
			return x.t == act
		}
		if x.t.idx != y.t.idx {
			return x.t.idx < y.t.idx
		}
		if x.arm != y.arm {
			return x.arm < y.arm
		}
		if x.p != nil && y.p != nil && x.p.idx != y.p.idx {
			return x.p.idx < y.p.idx
		}
		return x.parm < y.parm
	})
	nd := &node{enabled: en, chosen: -1}
	if i < len(s.prefix) {
		want := s.prefix[i]
		for j, t := range en {
			if t.key == want {
				nd.chosen = j
				break
			}
		}
		if nd.chosen < 0 {
			var ks []string
			for _, t := range en {
				ks = append(ks, t.key.String())
			}
			s.end(Outcome{Kind: "diverged", Detail: fmt.Sprintf("prefix step %d wants %s, enabled: %s", i, want, strings.Join(ks, " "))})
			return nil
		}
		if i == len(s.prefix)-1 {
			// the sleep set of the state after the prefix was computed by the parent (keys only;
			// resolved against the enabled list at the next node)
			s.sleep = nil
			for _, k := range s.initSleep {
				s.sleep = append(s.sleep, &trans{key: k})
			}
		}
	} else {
		// resolve the current sleep set against the enabled list
		var z []*trans
		for _, sl := range s.sleep {
			for _, t := range en {
				if t.key == sl.key {
					z = append(z, t)
					break
				}
			}
		}
		nd.sleep = z
		for j, t := range en {
			asleep := false
			for _, sl := range z {
				if sl == t {
					asleep = true
					break
				}
			}
			if !asleep {
				nd.chosen = j
				break
			}
		}
		if nd.chosen < 0 {
			s.nodes = append(s.nodes, nd)
			s.end(Outcome{Kind: "sleep-blocked"})
			return nil
		}
		c := en[nd.chosen]
		var nz []*trans
		for _, sl := range z {
			if !dependent(sl, c) {
				nz = append(nz, sl)
			}
		}
		s.sleep = nz
	}
	c := en[nd.chosen]
	s.updateHash(c)
	nd.stateK = s.stateKey()
	s.nodes = append(s.nodes, nd)
	if s.traceOn {
		s.trace = append(s.trace, c.describe())
	}
	return c
}

func opString(op *Op) string {
	switch op.kind {
	case opSelect:
		return fmt.Sprintf("select(%d arms, default=%v)", len(op.cases), op.hasDefault)
	case opSync, opAccess, opGlobal, opQuiesce, opChoose:
		return kindName[op.kind] + ":" + op.label
	}
	return kindName[op.kind]
}

// ---------------------------------------------------------------------------------------------
// threads

func (s *Sched) newThread(parent *Thread, name string) *Thread {
	t := &Thread{wake: make(chan wakeMsg, 1), exited: make(chan struct{}), name: name, idx: len(s.threads)}
	if parent == nil {
		t.ID = "0"
	} else {
		t.ID = fmt.Sprintf("%s.%d", parent.ID, parent.nspawn)
		parent.nspawn++
	}
	t.hash = strHash(t.ID)
	s.threads = append(s.threads, t)
	return t
}

func (s *Sched) runThread(t *Thread, f func()) {
	s.live.Add(1)
	go func() {
		defer s.live.Done()
		defer close(t.exited)
		defer func() {
			if r := recover(); r != nil {
				t.done = true
				s.end(Outcome{Kind: "panic", Detail: fmt.Sprintf("thread %s(%s): %v", t.ID, t.name, r), Stack: string(debug.Stack())})
				return
			}
			if s.aborting {
				t.done = true
				return
			}
			// normal exit: this thread is active; pass the baton on
			t.done = true
			t.pending = nil
			if t.idx == 0 {
				s.end(Outcome{Kind: "ok"})
				return
			}
			s.dispatch(t)
		}()
		// wait to be started
		s.park(t)
		f()
	}()
}

// Go starts f as a new controlled thread (pass-through: a plain goroutine).
func Go(f func()) { GoNamed("", f) }

func GoNamed(name string, f func()) {
	s := cur
	if s == nil {
		if fs := free; fs != nil {
			go func() {
				defer fs.recoverPanic()
				f()
			}()
			return
		}
		go f()
		return
	}
	if s.aborting {
		runtime.Goexit()
	}
	t := s.newThread(s.active, name)
	t.pending = &Op{kind: opStart}
	s.runThread(t, f)
}

// SelfName returns the name given to the running thread at creation ("" if none).
func SelfName() string {
	if cur == nil || cur.active == nil {
		return ""
	}
	return cur.active.name
}

// Self returns the hierarchical id of the running thread ("" in pass-through mode).
func Self() string {
	if cur == nil || cur.active == nil {
		return ""
	}
	return cur.active.ID
}

// ---------------------------------------------------------------------------------------------
// harness-visible operations

// Choose returns a value in [0,n) chosen by the explorer (0 in pass-through mode).
func Choose(n int, label string) int {
	s := cur
	if s == nil && free != nil && n > 1 {
		return freeChoose(n)
	}
	if s == nil || n <= 1 {
		return 0
	}
	t := s.yield(&Op{kind: opChoose, n: n, label: label})
	return t.arm
}

// Quiesce blocks until no other transition is enabled.
func Quiesce(label string) {
	s := cur
	if s == nil {
		if free != nil {
			freeQuiesce()
		}
		return
	}
	s.yield(&Op{kind: opQuiesce, label: label})
}

// Global performs a visible operation that conflicts with every other transition.
func Global(label string) {
	s := cur
	if s == nil {
		return
	}
	s.yield(&Op{kind: opGlobal, label: label})
}

// GlobalWhen is Global with an enabledness condition.
func GlobalWhen(label string, enabled func() bool) {
	s := cur
	if s == nil {
		if free != nil && enabled != nil {
			freeWait(enabled)
		}
		return
	}
	s.yield(&Op{kind: opGlobal, label: label, enabled: enabled})
}

// Access is a visible operation on a declared object (used by fakes and ordering oracles).
func Access(obj any, write bool, label string) {
	s := cur
	if s == nil {
		return
	}
	s.keep[objID(obj)] = obj
	s.yield(&Op{kind: opAccess, acc: []access{{objID(obj), write}}, label: label})
}

// AtomicPt / AtomicOp make an operation on a sync/atomic variable that takes part in a compare-and-swap protocol
// a scheduling point: vinstr rewrites x.Op(args) into AtomicOp(AtomicPt(&x, ...), x.Op(args)); Go evaluates the
// operands left to right, so the point comes first and the operation runs when the thread is scheduled again.
func AtomicPt(obj any, write bool, label string) struct{} {
	Access(obj, write, label)
	return struct{}{}
}

func AtomicOp[T any](_ struct{}, v T) T { return v }

// ClockOp is a visible read or write of the mock clock.
func ClockOp(write bool, label string) {
	s := cur
	if s == nil {
		return
	}
	s.yield(&Op{kind: opAccess, acc: []access{{ClockObj, write}}, label: "clock." + label})
}

// SyncOp is used by the sync shims.
func SyncOp(obj any, write bool, label string, enabled func() bool) {
	s := cur
	if s == nil {
		if free != nil { // harness-level wait: poll the condition
			if enabled != nil {
				freeWait(enabled)
			}
			return
		}
		panic("vsched.SyncOp in pass-through mode")
	}
	s.keep[objID(obj)] = obj
	s.yield(&Op{kind: opSync, obj: objID(obj), write: write, label: label, enabled: enabled})
}

// Cancel performs a context cancellation as a visible, globally conflicting operation.
func Cancel(f func()) {
	s := cur
	if s == nil || f == nil {
		if f != nil {
			f()
		}
		return
	}
	if s.aborting {
		return
	}
	s.yield(&Op{kind: opGlobal, label: "cancel"})
	f()
}

// Env gives per-execution storage to fakes.
func Env() map[string]any {
	if cur == nil {
		return nil
	}
	return cur.env
}

// Tracef appends a line to the execution trace (kept only in replay / violation runs).
func Tracef(format string, a ...any) {
	if cur != nil && cur.traceOn {
		cur.trace = append(cur.trace, "    | "+fmt.Sprintf(format, a...))
	}
}
