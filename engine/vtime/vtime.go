// Package vtime routes direct uses of package time to the mock clock of the controlled execution.
package vtime

import (
	"time"

	"github.com/atlassian/gostatsd/internal/verif/vsched"
	"github.com/tilinna/clock"
)

func clk() clock.Clock {
	if c, ok := vsched.EnvGet("clock").(clock.Clock); ok {
		return c
	}
	return nil
}

func Now() time.Time {
	if c := clk(); c != nil {
		return c.Now()
	}
	return time.Now()
}

// Wrap makes every use of the mock clock a visible operation of the scheduler: reading the time
// reads the clock object, creating timers and advancing write it.
func Wrap(m *clock.Mock) clock.Clock { return vclock{m} }

type vclock struct{ *clock.Mock }

func (c vclock) Now() time.Time { vsched.ClockOp(false, "now"); return c.Mock.Now() }
func (c vclock) Since(t time.Time) time.Duration {
	vsched.ClockOp(false, "since")
	return c.Mock.Since(t)
}
func (c vclock) Until(t time.Time) time.Duration {
	vsched.ClockOp(false, "until")
	return c.Mock.Until(t)
}
func (c vclock) After(d time.Duration) <-chan time.Time {
	vsched.ClockOp(true, "after")
	return c.Mock.After(d)
}
func (c vclock) Tick(d time.Duration) <-chan time.Time {
	vsched.ClockOp(true, "tick")
	return c.Mock.Tick(d)
}
func (c vclock) NewTimer(d time.Duration) *clock.Timer {
	vsched.ClockOp(true, "newtimer")
	return c.Mock.NewTimer(d)
}
func (c vclock) NewTicker(d time.Duration) *clock.Ticker {
	vsched.ClockOp(true, "newticker")
	return c.Mock.NewTicker(d)
}
func (c vclock) AfterFunc(d time.Duration, f func()) *clock.Timer {
	vsched.ClockOp(true, "afterfunc")
	return c.Mock.AfterFunc(d, f)
}
func (c vclock) Sleep(d time.Duration) { vsched.Recv(c.After(d)) }

// Advance moves the mock clock as one visible write of the clock object.
func Advance(m *clock.Mock, d time.Duration) {
	vsched.ClockOp(true, "advance")
	m.Add(d)
}

func Since(t time.Time) time.Duration { return Now().Sub(t) }
func Until(t time.Time) time.Duration { return t.Sub(Now()) }

func Sleep(d time.Duration) {
	if c := clk(); c != nil {
		vsched.Recv(c.After(d))
		return
	}
	time.Sleep(d)
}

func After(d time.Duration) <-chan time.Time {
	if c := clk(); c != nil {
		return c.After(d)
	}
	return time.After(d)
}

func Tick(d time.Duration) <-chan time.Time {
	if c := clk(); c != nil {
		return c.Tick(d)
	}
	return time.Tick(d)
}

type Timer struct {
	C  <-chan time.Time
	ct *clock.Timer
	rt *time.Timer
}

func NewTimer(d time.Duration) *Timer {
	if c := clk(); c != nil {
		t := c.NewTimer(d)
		return &Timer{C: t.C, ct: t}
	}
	t := time.NewTimer(d)
	return &Timer{C: t.C, rt: t}
}

func (t *Timer) Stop() bool {
	if t.ct != nil {
		return t.ct.Stop()
	}
	return t.rt.Stop()
}

func (t *Timer) Reset(d time.Duration) bool {
	if t.ct != nil {
		return t.ct.Reset(d)
	}
	return t.rt.Reset(d)
}

type Ticker struct {
	C  <-chan time.Time
	ct *clock.Ticker
	rt *time.Ticker
}

func NewTicker(d time.Duration) *Ticker {
	if c := clk(); c != nil {
		t := c.NewTicker(d)
		return &Ticker{C: t.C, ct: t}
	}
	t := time.NewTicker(d)
	return &Ticker{C: t.C, rt: t}
}

func (t *Ticker) Stop() {
	if t.ct != nil {
		t.ct.Stop()
		return
	}
	t.rt.Stop()
}

func AfterFunc(d time.Duration, f func()) *Timer {
	if c := clk(); c != nil {
		t := c.AfterFunc(d, f)
		return &Timer{ct: t}
	}
	return &Timer{rt: time.AfterFunc(d, f)}
}
