// Package vwait mirrors github.com/ash2k/stager/wait on top of the controlled scheduler.
package vwait

import (
	"context"

	"github.com/atlassian/gostatsd/internal/verif/vsched"
	"github.com/atlassian/gostatsd/internal/verif/vsync"
)

type Group struct {
	wg vsync.WaitGroup
}

func (g *Group) Wait() { g.wg.Wait() }

func (g *Group) StartWithChannel(stopCh <-chan struct{}, f func(stopCh <-chan struct{})) {
	g.Start(func() { f(stopCh) })
}

func (g *Group) StartWithContext(ctx context.Context, f func(context.Context)) {
	g.Start(func() { f(ctx) })
}

func (g *Group) Start(f func()) {
	g.wg.Add(1)
	vsched.Go(func() {
		defer g.wg.Done()
		f()
	})
}
