// Package vstager mirrors github.com/ash2k/stager on top of the controlled scheduler (its stages
// start goroutines through vwait, i.e. as controlled threads).
package vstager

import (
	"context"

	"github.com/atlassian/gostatsd/internal/verif/vsched"
	"github.com/atlassian/gostatsd/internal/verif/vwait"
)

type Stager interface {
	NextStage() Stage
	NextStageWithContext(ctxParent context.Context) Stage
	Shutdown()
}

type Stage interface {
	Start(func())
	StartWithChannel(func(stopCh <-chan struct{}))
	StartWithContext(func(context.Context))
}

func New() Stager { return &stager{} }

type stager struct{ stages []*stage }

func (sr *stager) NextStage() Stage { return sr.NextStageWithContext(context.Background()) }

func (sr *stager) NextStageWithContext(ctxParent context.Context) Stage {
	ctx, cancel := context.WithCancel(ctxParent)
	st := &stage{ctx: ctx, cancel: cancel}
	sr.stages = append(sr.stages, st)
	return st
}

func (sr *stager) Shutdown() {
	for i := len(sr.stages) - 1; i >= 0; i-- {
		st := sr.stages[i]
		vsched.Cancel(st.cancel)
		st.group.Wait()
	}
}

type stage struct {
	ctx    context.Context
	cancel context.CancelFunc
	group  vwait.Group
}

func (s *stage) Start(f func()) { s.group.Start(f) }
func (s *stage) StartWithChannel(f func(stopCh <-chan struct{})) {
	s.group.StartWithChannel(s.ctx.Done(), f)
}
func (s *stage) StartWithContext(f func(context.Context)) { s.group.StartWithContext(s.ctx, f) }
