// Package verrgroup mirrors the part of golang.org/x/sync/errgroup that gostatsd uses.
package verrgroup

import (
	"context"

	"github.com/atlassian/gostatsd/internal/verif/vsched"
	"github.com/atlassian/gostatsd/internal/verif/vsync"
)

type Group struct {
	cancel func(error)
	wg     vsync.WaitGroup
	mu     vsync.Mutex
	err    error
	sem    chan struct{}
}

func WithContext(ctx context.Context) (*Group, context.Context) {
	ctx, cancel := context.WithCancelCause(ctx)
	return &Group{cancel: cancel}, ctx
}

func (g *Group) Wait() error {
	g.wg.Wait()
	if g.cancel != nil {
		err := g.err
		vsched.Cancel(func() { g.cancel(err) })
	}
	return g.err
}

func (g *Group) SetLimit(n int) {
	if n < 0 {
		g.sem = nil
		return
	}
	g.sem = make(chan struct{}, n)
}

func (g *Group) Go(f func() error) {
	if g.sem != nil {
		vsched.Send(g.sem, struct{}{})
	}
	g.wg.Add(1)
	vsched.Go(func() {
		defer func() {
			if g.sem != nil {
				vsched.Recv(g.sem)
			}
			g.wg.Done()
		}()
		if err := f(); err != nil {
			g.mu.Lock()
			first := g.err == nil
			if first {
				g.err = err
			}
			g.mu.Unlock()
			if first && g.cancel != nil {
				vsched.Cancel(func() { g.cancel(err) })
			}
		}
	})
}
