// Package lineref is the reference reading of the documented statsd/dogstatsd line grammar. It is a
// field splitter (strings.Cut / strconv), deliberately unlike the implementation's state machine.
//
//	name:value|type[|@rate][|#tag,...][|other-field...]      types c g ms h s
//	_e{n,m}:title|text[|d:ts][|h:host][|k:key][|p:low|normal][|s:src][|t:error|warning|success|info][|#tags]
package lineref

import (
	"math"
	"math/big"
	"strconv"
	"strings"
)

type Verdict int

const (
	Reject      Verdict = iota // the documentation says this line is rejected
	Accept                     // the documentation defines the result completely
	Unspecified                // outside the documented grammar: only the implications of the property apply
)

type Metric struct {
	Name  string
	Type  string // "c","g","ms" (also for h),"s"
	Value float64
	Str   string // set member
	Rate  float64
	Tags  []string
}

type Event struct {
	Title, Text, Host, Key, SourceType string
	Date                               int64
	Priority                           string // "normal","low"
	Alert                              string // "info","warning","error","success"
	Tags                               []string
}

// NormalizeName applies the documented name normalisation.
func NormalizeName(raw string) string {
	var b strings.Builder
	for i := 0; i < len(raw); i++ {
		c := raw[i]
		switch {
		case c == '/':
			b.WriteByte('-')
		case c == ' ' || c == '\t':
			b.WriteByte('_')
		case c >= 'a' && c <= 'z', c >= 'A' && c <= 'Z', c >= '0' && c <= '9', c == '.', c == '-', c == '_':
			b.WriteByte(c)
		}
	}
	return b.String()
}

func splitTags(s string) []string {
	var out []string
	for _, t := range strings.Split(s, ",") {
		if t != "" {
			out = append(out, t)
		}
	}
	return out
}

// MustReject reports the rejection conditions the property lists, for ANY line (also unspecified ones).
func MustReject(line string) (bool, string) {
	name, rest, ok := strings.Cut(line, ":")
	_ = name
	if !ok {
		return true, "no name separator"
	}
	if strings.HasPrefix(line, "_") {
		return false, "" // Datadog special: the metric rules below do not apply
	}
	val, fields, ok := strings.Cut(rest, "|")
	if !ok {
		return true, "no value separator"
	}
	fs := strings.Split(fields, "|")
	switch fs[0] {
	case "c", "g", "ms", "h", "s":
	default:
		return true, "unknown type"
	}
	if fs[0] != "s" {
		if _, err := strconv.ParseFloat(val, 64); err != nil {
			return true, "unparsable value"
		}
	}
	for _, f := range fs[1:] {
		if strings.HasPrefix(f, "@") {
			if _, err := strconv.ParseFloat(f[1:], 64); err != nil {
				return true, "unparsable sample rate"
			}
		}
	}
	return false, ""
}

// ParseMetric gives the documented result of a metric line (namespace "" or ns).
func ParseMetric(line, ns string) (Verdict, *Metric) {
	if strings.IndexByte(line, 0) >= 0 || strings.IndexByte(line, '\n') >= 0 {
		return Unspecified, nil
	}
	if strings.HasPrefix(line, "_") {
		return Unspecified, nil
	}
	if rej, _ := MustReject(line); rej {
		return Reject, nil
	}
	raw, rest, _ := strings.Cut(line, ":")
	val, fields, _ := strings.Cut(rest, "|")
	fs := strings.Split(fields, "|")
	m := &Metric{Name: NormalizeName(raw), Rate: 1}
	if m.Name == "" {
		return Reject, nil // "whatever is accepted has a non-empty name"
	}
	if ns != "" {
		m.Name = ns + "." + m.Name
	}
	m.Type = fs[0]
	if m.Type == "h" {
		m.Type = "ms"
	}
	if m.Type == "s" {
		m.Str = val
	} else {
		v, _ := strconv.ParseFloat(val, 64)
		if math.IsNaN(v) {
			return Reject, nil
		}
		m.Value = v
	}
	nrate, ntags := 0, 0
	for _, f := range fs[1:] {
		switch {
		case strings.HasPrefix(f, "@"):
			r, _ := strconv.ParseFloat(f[1:], 64)
			if math.IsNaN(r) || math.IsInf(r, 0) || r <= 0 {
				return Reject, nil // an accepted line has a finite, strictly positive rate
			}
			m.Rate = r
			nrate++
		case strings.HasPrefix(f, "#"):
			m.Tags = append(m.Tags, splitTags(f[1:])...)
			ntags++
		}
	}
	if nrate > 1 || ntags > 1 {
		return Unspecified, m // repeated optional fields are not documented
	}
	return Accept, m
}

var maxU32 = new(big.Int).SetUint64(math.MaxUint32)

// ParseEvent gives the documented result of an event line.
func ParseEvent(line string) (Verdict, *Event) {
	if !strings.HasPrefix(line, "_e{") || strings.IndexByte(line, 0) >= 0 || strings.IndexByte(line, '\n') >= 0 {
		return Unspecified, nil
	}
	hdr, rest, ok := strings.Cut(line[3:], "}:")
	if !ok {
		return Reject, nil
	}
	ns, ms, ok := strings.Cut(hdr, ",")
	if !ok || !digits(ns) || !digits(ms) {
		return Reject, nil
	}
	n, _ := new(big.Int).SetString(ns, 10)
	m, _ := new(big.Int).SetString(ms, 10)
	if n.Cmp(maxU32) > 0 || m.Cmp(maxU32) > 0 {
		return Reject, nil
	}
	nl, ml := int(n.Int64()), int(m.Int64())
	if len(rest) < nl+1+ml || rest[nl] != '|' {
		return Reject, nil
	}
	e := &Event{Title: rest[:nl], Text: strings.ReplaceAll(rest[nl+1:nl+1+ml], "\\n", "\n"), Priority: "normal", Alert: "info"}
	tail := rest[nl+1+ml:]
	if tail == "" {
		return Accept, e
	}
	if tail[0] != '|' {
		return Reject, nil
	}
	seen := map[byte]bool{}
	repeated := false
	for _, f := range strings.Split(tail[1:], "|") {
		if f != "" {
			if seen[f[0]] {
				repeated = true // the documentation does not say which occurrence of a repeated attribute wins
			}
			seen[f[0]] = true
		}
		switch {
		case strings.HasPrefix(f, "d:"):
			if !digits(f[2:]) {
				return Reject, nil
			}
			v, _ := new(big.Int).SetString(f[2:], 10)
			if !v.IsInt64() {
				return Reject, nil
			}
			e.Date = v.Int64()
		case strings.HasPrefix(f, "h:"):
			e.Host = f[2:]
		case strings.HasPrefix(f, "k:"):
			e.Key = f[2:]
		case strings.HasPrefix(f, "s:"):
			e.SourceType = f[2:]
		case strings.HasPrefix(f, "p:"):
			switch f[2:] {
			case "low", "normal":
				e.Priority = f[2:]
			default:
				return Reject, nil
			}
		case strings.HasPrefix(f, "t:"):
			switch f[2:] {
			case "error", "warning", "success", "info":
				e.Alert = f[2:]
			default:
				return Reject, nil
			}
		case strings.HasPrefix(f, "#"):
			e.Tags = append(e.Tags, splitTags(f[1:])...)
		default:
			if f == "" {
				continue // an empty field is a field of no known kind: ignored like any other, the fields after it count
			}
			if strings.IndexByte("dhkpst", f[0]) >= 0 {
				return Unspecified, e // a known letter without ':': not documented
			}
			// unknown fields are ignored
		}
	}
	if repeated {
		return Unspecified, e
	}
	return Accept, e
}

func digits(s string) bool {
	if s == "" {
		return false
	}
	for i := 0; i < len(s); i++ {
		if s[i] < '0' || s[i] > '9' {
			return false
		}
	}
	return true
}
