// Package mapref is the reference aggregate: what a collection of datapoints amounts to according
// to the documentation - counters add trunc(value/rate), timers collect values and add 1/rate,
// sets unite, a gauge keeps the value of a datapoint carrying the newest timestamp (the last one in
// arrival order where an arrival order exists), every series keeps the newest timestamp.
package mapref

import (
	"fmt"
	"math"
	"sort"
	"strings"

	"github.com/atlassian/gostatsd/internal/verif/lib/fx"
)

// DP is one datapoint.
type DP struct {
	Type   string // c g ms s
	Name   string
	Tags   []string
	Source string
	Value  float64
	Str    string
	Rate   float64
	TS     int64
	Empty  bool // set datapoint that only creates the series (a set without members)
}

type Series struct {
	Type, Name, Source string
	Tags               []string // sorted
	Count              int64
	Values             []float64
	Sampled            float64
	Members            map[string]bool
	GaugeLast          float64   // value of the last datapoint (in Add order) among those with the newest timestamp
	GaugeCands         []float64 // all values seen at the newest timestamp
	TS                 int64
}

type Agg map[string]*Series

func Key(typ, name string, tags []string, source string) string {
	t := append([]string{}, tags...)
	sort.Strings(t)
	return typ + "\x00" + name + "\x00" + strings.Join(t, "\x01") + "\x00" + source
}

func (a Agg) get(typ, name string, tags []string, source string) *Series {
	k := Key(typ, name, tags, source)
	s := a[k]
	if s == nil {
		t := append([]string{}, tags...)
		sort.Strings(t)
		s = &Series{Type: typ, Name: name, Source: source, Tags: t, Members: map[string]bool{}, TS: math.MinInt64}
		a[k] = s
	}
	return s
}

// Add folds one datapoint in (arrival order matters only for equal-timestamp gauges).
func (a Agg) Add(d DP) {
	s := a.get(d.Type, d.Name, d.Tags, d.Source)
	rate := d.Rate
	if rate == 0 {
		rate = 1
	}
	switch d.Type {
	case "c":
		s.Count += int64(d.Value / rate)
	case "ms":
		s.Values = append(s.Values, d.Value)
		s.Sampled += 1 / rate
	case "s":
		if !d.Empty {
			s.Members[d.Str] = true
		}
	case "g":
		if d.TS > s.TS || len(s.GaugeCands) == 0 {
			s.GaugeCands = []float64{d.Value}
			s.GaugeLast = d.Value
		} else if d.TS == s.TS {
			s.GaugeCands = append(s.GaugeCands, d.Value)
			s.GaugeLast = d.Value
		}
	}
	if d.TS > s.TS {
		s.TS = d.TS
	}
}

// FromSnapshot converts an implementation snapshot to the reference form, reporting series that
// coincide (same name, tag set and source under two keys).
func FromSnapshot(ss []fx.Series) (Agg, error) {
	a := Agg{}
	for _, x := range ss {
		typ := x.Type
		if typ == "t" {
			typ = "ms"
		}
		k := Key(typ, x.Name, x.Tags, x.Source)
		if a[k] != nil {
			return nil, fmt.Errorf("series %s %v src=%q appears under two keys", x.Name, x.Tags, x.Source)
		}
		s := a.get(typ, x.Name, x.Tags, x.Source)
		s.Count, s.Sampled, s.TS = x.Count, x.Sampled, x.TS
		s.Values = append([]float64{}, x.Values...)
		for _, m := range x.Members {
			s.Members[m] = true
		}
		s.GaugeLast, s.GaugeCands = x.Gauge, []float64{x.Gauge}
	}
	return a, nil
}

func feq(a, b float64) bool {
	return a == b || (math.IsNaN(a) && math.IsNaN(b))
}

// Diff compares an implementation aggregate with the reference. gaugeMode: "last" (the last datapoint
// at the newest timestamp must win) or "any" (any datapoint at the newest timestamp). withTS compares
// timestamps too.
func Diff(impl, want Agg, gaugeMode string, withTS bool) string {
	for k, w := range want {
		g := impl[k]
		if g == nil {
			return fmt.Sprintf("series %s missing (want %s)", show(k), w.String())
		}
		switch w.Type {
		case "c":
			if g.Count != w.Count {
				return fmt.Sprintf("counter %s = %d, want %d", show(k), g.Count, w.Count)
			}
		case "ms":
			a, b := append([]float64{}, g.Values...), append([]float64{}, w.Values...)
			sort.Float64s(a)
			sort.Float64s(b)
			if fmt.Sprint(a) != fmt.Sprint(b) {
				return fmt.Sprintf("timer %s values %v, want %v", show(k), a, b)
			}
			if math.Abs(g.Sampled-w.Sampled) > 1e-9*math.Max(1, math.Abs(w.Sampled)) {
				return fmt.Sprintf("timer %s sampled count %v, want %v", show(k), g.Sampled, w.Sampled)
			}
		case "s":
			if len(g.Members) != len(w.Members) {
				return fmt.Sprintf("set %s members %v, want %v", show(k), keys(g.Members), keys(w.Members))
			}
			for m := range w.Members {
				if !g.Members[m] {
					return fmt.Sprintf("set %s lacks member %q", show(k), m)
				}
			}
		case "g":
			ok := false
			if gaugeMode == "last" {
				ok = feq(g.GaugeLast, w.GaugeLast)
			} else {
				for _, c := range w.GaugeCands {
					if feq(g.GaugeLast, c) {
						ok = true
					}
				}
			}
			if !ok {
				return fmt.Sprintf("gauge %s = %v, want %v (mode %s, candidates %v)", show(k), g.GaugeLast, w.GaugeLast, gaugeMode, w.GaugeCands)
			}
		}
		if withTS && g.TS != w.TS {
			return fmt.Sprintf("series %s timestamp %d, want %d", show(k), g.TS, w.TS)
		}
	}
	for k := range impl {
		if want[k] == nil {
			return fmt.Sprintf("unexpected series %s", show(k))
		}
	}
	return ""
}

func keys(m map[string]bool) []string {
	var out []string
	for k := range m {
		out = append(out, k)
	}
	sort.Strings(out)
	return out
}

func show(k string) string {
	return strings.NewReplacer("\x00", "|", "\x01", ",").Replace(k)
}

func (s *Series) String() string {
	return fmt.Sprintf("{%s %s %v src=%q n=%d vals=%v sc=%v m=%v g=%v ts=%d}", s.Type, s.Name, s.Tags, s.Source, s.Count, s.Values, s.Sampled, keys(s.Members), s.GaugeLast, s.TS)
}

// AddSeries merges an already aggregated series (arrival order semantics as Add).
func (a Agg) AddSeries(x *Series) {
	s := a.get(x.Type, x.Name, x.Tags, x.Source)
	s.Count += x.Count
	s.Values = append(s.Values, x.Values...)
	s.Sampled += x.Sampled
	for m := range x.Members {
		s.Members[m] = true
	}
	if x.Type == "g" {
		if x.TS > s.TS || len(s.GaugeCands) == 0 {
			s.GaugeCands = append([]float64{}, x.GaugeCands...)
			s.GaugeLast = x.GaugeLast
		} else if x.TS == s.TS {
			s.GaugeCands = append(s.GaugeCands, x.GaugeCands...)
			s.GaugeLast = x.GaugeLast
		}
	}
	if x.TS > s.TS {
		s.TS = x.TS
	}
}
