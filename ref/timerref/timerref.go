// Package timerref restates the documented timer statistics directly: sort, slice, sum.
package timerref

import (
	"fmt"
	"math"
	"sort"
	"strconv"
	"strings"
)

type Stats struct {
	Count                                          int
	PerSecond                                      float64
	Min, Max, Sum, SumSquares, Mean, Median, StdDev float64
	Pct                                            map[string]float64 // e.g. "count_90", "upper_90", "lower_-90"
}

// Round is round-half-up as the documentation's round().
func Round(x float64) float64 { return math.Floor(x + 0.5) }

// Compute gives the statistics of values (any order) with the given sampled count, interval in
// seconds, and percentile list. disabledPct lists the disabled per-percentile sub-metrics (count,
// mean, sum, sum_squares, upper, lower).
func Compute(values []float64, sampled float64, intervalSec float64, pcts []float64, disabled map[string]bool) Stats {
	st := Stats{Pct: map[string]float64{}}
	n := len(values)
	if n == 0 {
		return st
	}
	v := append([]float64{}, values...)
	sort.Float64s(v)
	st.Count = int(Round(sampled))
	st.PerSecond = sampled / intervalSec
	st.Min, st.Max = v[0], v[n-1]
	for _, x := range v {
		st.Sum += x
		st.SumSquares += x * x
	}
	st.Mean = st.Sum / float64(n)
	if n%2 == 0 {
		st.Median = (v[n/2-1] + v[n/2]) / 2
	} else {
		st.Median = v[n/2]
	}
	var d float64
	for _, x := range v {
		d += (x - st.Mean) * (x - st.Mean)
	}
	st.StdDev = math.Sqrt(d / float64(n))
	for _, p := range pcts {
		k := 1
		if n > 1 {
			k = int(Round(math.Abs(p) / 100 * float64(n)))
		}
		if k == 0 {
			continue
		}
		var sub []float64
		if p > 0 {
			sub = v[:k]
		} else {
			sub = v[n-k:]
		}
		var sum, sq float64
		for _, x := range sub {
			sum += x
			sq += x * x
		}
		name := strings.Replace(strconv.Itoa(int(p)), ".", "_", -1)
		set := func(stat string, val float64) {
			if !disabled[stat] {
				st.Pct[stat+"_"+name] = val
			}
		}
		set("count", float64(k))
		set("mean", sum/float64(k))
		set("sum", sum)
		set("sum_squares", sq)
		if p > 0 {
			set("upper", sub[k-1])
		} else {
			set("lower", sub[0])
		}
	}
	return st
}

// Histogram gives the documented bucket counts for a gsd_histogram tag value; nil if limit is 0.
func Histogram(tagValue string, limit uint32, values []float64) map[float64]int {
	if limit == 0 {
		return map[float64]int{}
	}
	var bounds []float64
	for _, s := range strings.Split(tagValue, "_") {
		if f, err := strconv.ParseFloat(s, 64); err == nil {
			bounds = append(bounds, f)
		}
	}
	if uint32(len(bounds)) > limit {
		bounds = bounds[:limit]
	}
	h := map[float64]int{}
	for _, b := range bounds {
		h[b] = 0
	}
	for b := range h {
		for _, x := range values {
			if x <= b {
				h[b]++
			}
		}
	}
	h[math.Inf(1)] = len(values)
	return h
}

func Close(a, b float64) bool {
	if a == b {
		return true
	}
	return math.Abs(a-b) <= 1e-12*math.Max(math.Abs(a), math.Abs(b))
}

func (s Stats) String() string {
	return fmt.Sprintf("{count=%d ps=%v min=%v max=%v sum=%v sumsq=%v mean=%v median=%v stddev=%v pct=%v}", s.Count, s.PerSecond, s.Min, s.Max, s.Sum, s.SumSquares, s.Mean, s.Median, s.StdDev, s.Pct)
}
