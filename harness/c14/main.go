// C14: what a forwarder encodes is what the ingesting server decodes.
package main

import (
	"bytes"
	"compress/zlib"
	"context"
	"fmt"
	"io"
	"math"
	"net/http"
	"net/http/httptest"
	"os"
	"sort"
	"strings"
	"time"
	"unicode/utf8"

	"github.com/pierrec/lz4/v4"
	"github.com/tilinna/clock"
	"google.golang.org/protobuf/proto"

	"github.com/atlassian/gostatsd"
	"github.com/atlassian/gostatsd/internal/flush"
	"github.com/atlassian/gostatsd/internal/verif/lib/fx"
	"github.com/atlassian/gostatsd/internal/verif/vrt"
	"github.com/atlassian/gostatsd/internal/verif/vsched"
	"github.com/atlassian/gostatsd/internal/verif/vtime"
	"github.com/atlassian/gostatsd/pb"
	"github.com/atlassian/gostatsd/pkg/statsd"
	"github.com/atlassian/gostatsd/pkg/transport"
	"github.com/atlassian/gostatsd/pkg/web"
	"github.com/spf13/viper"
)

var res *vrt.Result
var nontrivial = map[string]struct{}{}

// bridge: RoundTripper that serves the request with the ingestion server's router
type bridge struct {
	router   http.Handler
	codes    []int
	paths    []string
	failNext int // answer the next n non-empty requests with 503 without showing them to the receiver
}

func (b *bridge) RoundTrip(req *http.Request) (*http.Response, error) {
	if b.failNext > 0 && req.ContentLength > 0 && req.URL.Path == "/v2/event" {
		b.failNext--
		io.Copy(io.Discard, req.Body) // a real upstream reads the body before it answers
		req.Body.Close()
		b.codes = append(b.codes, 503)
		b.paths = append(b.paths, req.URL.Path)
		return &http.Response{StatusCode: 503, Status: "503", Header: http.Header{}, Body: io.NopCloser(strings.NewReader("busy")), Request: req}, nil
	}
	w := httptest.NewRecorder()
	b.router.ServeHTTP(w, req)
	b.codes = append(b.codes, w.Code)
	b.paths = append(b.paths, req.URL.Path)
	return w.Result(), nil
}

type comp struct {
	Type  string
	Level int
	Off   bool `json:",omitempty"` // compress=false while a compression type is configured (the documented default type is zlib)
}

func comps() []comp {
	cs := []comp{{Type: "none"}, {Type: "zlib", Level: 6, Off: true}, {Type: "lz4", Level: 1, Off: true}}
	for l := 0; l <= 9; l++ {
		cs = append(cs, comp{Type: "zlib", Level: l}, comp{Type: "lz4", Level: l})
	}
	return cs
}

// F is a float64 that survives JSON (NaN, infinities, -0) for replay files.
type F float64

func (f F) MarshalJSON() ([]byte, error) {
	return []byte(fmt.Sprintf("\"%x\"", math.Float64bits(float64(f)))), nil
}

func (f *F) UnmarshalJSON(b []byte) error {
	var u uint64
	if _, err := fmt.Sscanf(strings.Trim(string(b), "\""), "%x", &u); err != nil {
		return err
	}
	*f = F(math.Float64frombits(u))
	return nil
}

func fs(v []F) []float64 {
	o := make([]float64, len(v))
	for i := range v {
		o[i] = float64(v[i])
	}
	return o
}

// series description for building maps by hand (values that Receive would never produce included)
type sd struct {
	Type    string
	Name    string
	Tags    []string
	TagsNil bool
	Source  string
	I       int64
	F       F
	Vals    []F
	SC      F
	Members []string
}

func (s sd) String() string {
	return fmt.Sprintf("{%s %s tags=%q nil=%v src=%q i=%d f=%v vals=%v sc=%v m=%q}", s.Type, s.Name, s.Tags, s.TagsNil, s.Source, s.I, s.F, s.Vals, s.SC, s.Members)
}

func (s sd) validUTF8() bool {
	ok := utf8.ValidString(s.Name) && utf8.ValidString(s.Source)
	for _, t := range s.Tags {
		ok = ok && utf8.ValidString(t)
	}
	for _, m := range s.Members {
		ok = ok && utf8.ValidString(m)
	}
	return ok
}

func (s sd) sanitized() sd {
	fix := func(x string) string { return strings.ToValidUTF8(x, "\uFFFD") }
	s.Name, s.Source = fix(s.Name), fix(s.Source)
	tags := make([]string, len(s.Tags))
	for i, t := range s.Tags {
		tags[i] = fix(t)
	}
	if s.Tags != nil {
		s.Tags = tags
	}
	ms := make([]string, len(s.Members))
	for i, m := range s.Members {
		ms[i] = fix(m)
	}
	if s.Members != nil {
		s.Members = ms
	}
	return s
}

func buildMap(ss []sd) *gostatsd.MetricMap {
	mm := gostatsd.NewMetricMap(false)
	for _, s := range ss {
		var tags gostatsd.Tags
		if !s.TagsNil {
			tags = append(gostatsd.Tags{}, s.Tags...)
		}
		key := gostatsd.FormatTagsKey(gostatsd.Source(s.Source), tags)
		switch s.Type {
		case "c":
			if mm.Counters[s.Name] == nil {
				mm.Counters[s.Name] = map[string]gostatsd.Counter{}
			}
			mm.Counters[s.Name][key] = gostatsd.Counter{Value: s.I, Tags: tags, Source: gostatsd.Source(s.Source), Timestamp: 5}
		case "g":
			if mm.Gauges[s.Name] == nil {
				mm.Gauges[s.Name] = map[string]gostatsd.Gauge{}
			}
			mm.Gauges[s.Name][key] = gostatsd.Gauge{Value: float64(s.F), Tags: tags, Source: gostatsd.Source(s.Source), Timestamp: 5}
		case "t":
			if mm.Timers[s.Name] == nil {
				mm.Timers[s.Name] = map[string]gostatsd.Timer{}
			}
			mm.Timers[s.Name][key] = gostatsd.Timer{Values: fs(s.Vals), SampledCount: float64(s.SC), Tags: tags, Source: gostatsd.Source(s.Source), Timestamp: 5}
		case "s":
			if mm.Sets[s.Name] == nil {
				mm.Sets[s.Name] = map[string]gostatsd.Set{}
			}
			v := map[string]struct{}{}
			for _, m := range s.Members {
				v[m] = struct{}{}
			}
			mm.Sets[s.Name][key] = gostatsd.Set{Values: v, Tags: tags, Source: gostatsd.Source(s.Source), Timestamp: 5}
		}
	}
	return mm
}

func fbits(f float64) string {
	if math.IsNaN(f) {
		return "NaN"
	}
	return fmt.Sprintf("%x", math.Float64bits(f))
}

var canonSortTimers bool // timer values as a multiset (set while batches combined by the forwarder are compared)

// canon renders a map exactly (bit patterns of floats, tag order, no timestamps, nil == empty tags)
func canon(mm *gostatsd.MetricMap) string {
	var parts []string
	mm.Counters.Each(func(n, k string, c gostatsd.Counter) {
		parts = append(parts, fmt.Sprintf("c|%q|%q|%q|%q|%d", n, k, []string(c.Tags), c.Source, c.Value))
	})
	mm.Gauges.Each(func(n, k string, g gostatsd.Gauge) {
		parts = append(parts, fmt.Sprintf("g|%q|%q|%q|%q|%s", n, k, []string(g.Tags), g.Source, fbits(g.Value)))
	})
	mm.Timers.Each(func(n, k string, t gostatsd.Timer) {
		var vs []string
		for _, v := range t.Values {
			vs = append(vs, fbits(v))
		}
		if canonSortTimers {
			sort.Strings(vs)
		}
		parts = append(parts, fmt.Sprintf("t|%q|%q|%q|%q|%v|%s", n, k, []string(t.Tags), t.Source, vs, fbits(t.SampledCount)))
	})
	mm.Sets.Each(func(n, k string, s gostatsd.Set) {
		var ms []string
		for m := range s.Values {
			ms = append(ms, m)
		}
		sort.Strings(ms)
		parts = append(parts, fmt.Sprintf("s|%q|%q|%q|%q|%q", n, k, []string(s.Tags), s.Source, ms))
	})
	sort.Strings(parts)
	return strings.Join(parts, "\n")
}

type rtcase struct {
	Series []sd
	Event  *gostatsd.Event
	Comp   comp
	// Apart: every series is dispatched to the forwarder as a batch of its own, in order, before the one
	// flush; series with the same key are then combined by the forwarder (Fold is the reference).
	Apart bool
}

// fold combines series of one key the way batches combine: counters add, timer values unite with the
// sampled counts added, sets unite; gauges of one key are not put in these cases (all carry one timestamp).
func fold(ss []sd) []sd {
	idx := map[string]int{}
	var out []sd
	for _, s := range ss {
		k := s.Type + "|" + s.Name + "|" + s.Source + "|" + strings.Join(s.Tags, ",")
		i, ok := idx[k]
		if !ok {
			idx[k] = len(out)
			c := s
			c.Vals = append([]F{}, s.Vals...)
			c.Members = append([]string{}, s.Members...)
			out = append(out, c)
			continue
		}
		o := &out[i]
		o.I += s.I
		o.Vals = append(o.Vals, s.Vals...)
		o.SC += s.SC
		o.Members = append(o.Members, s.Members...)
	}
	return out
}

// forwarderFromConfig builds the forwarder the way the server does: from the http-transport configuration keys.
func forwarderFromConfig(pool *transport.TransportPool, fc flush.Coordinator, kv map[string]any) (*statsd.HttpForwarderHandlerV2, error) {
	v := viper.New()
	kv["api-endpoint"] = "http://up.invalid"
	v.Set("http-transport", kv)
	return statsd.NewHttpForwarderHandlerV2FromViper(fx.Quiet(), v, pool, fc)
}

func newForwarder(c comp, rec *fx.Recorder) (*statsd.HttpForwarderHandlerV2, *bridge, error) {
	rt, err := fx.IngestionRouter(rec, "rx")
	if err != nil {
		return nil, nil, err
	}
	br := &bridge{router: rt}
	v := viper.New()
	pool := transport.NewTransportPool(fx.Quiet(), v)
	hc, _ := pool.Get("default")
	hc.Client.Transport = br
	hc.Client.Timeout = 0
	h, err := forwarderFromConfig(pool, nil, map[string]any{"consolidator-slots": 1, "max-requests": 2, "concurrent-merge": 1, "compress": c.Type != "none" && !c.Off, "compression-type": c.Type, "compression-level": c.Level, "max-request-elapsed-time": time.Second, "flush-interval": time.Second})
	return h, br, err
}

func roundTrip(tc rtcase) {
	res.Evaluations++
	rec := &fx.Recorder{}
	var br *bridge
	var cerr error
	o := vsched.RunOnce(func() {
		ctx, mock := fx.NewClock(context.Background())
		clock.VerifDefault = vsched.EnvGet("clock").(clock.Clock)
		h, b, err := newForwarder(tc.Comp, rec)
		br, cerr = b, err
		if err != nil {
			return
		}
		vsched.GoNamed("fwd.Run", func() { h.Run(ctx) })
		if tc.Event != nil {
			e := *tc.Event
			h.DispatchEvent(ctx, &e)
			h.WaitForEvents()
		} else {
			if tc.Apart {
				for _, one := range tc.Series {
					h.DispatchMetricMap(ctx, buildMap([]sd{one}))
				}
			} else {
				h.DispatchMetricMap(ctx, buildMap(tc.Series))
			}
			vsched.Quiesce("dispatched")
			vtime.Advance(mock, time.Second)
		}
		vsched.Quiesce("flushed")
	})
	bad := func(kind, msg string) {
		res.Violate(kind, fmt.Sprintf("%s: compression %+v input %v %+v: %s", kind, tc.Comp, tc.Series, tc.Event, msg), tc)
	}
	if cerr != nil {
		bad("construct", cerr.Error())
		return
	}
	if o.Kind != "ok" {
		bad("outcome-"+o.Kind, o.Detail+"\n"+o.Stack)
		return
	}
	for i, code := range br.codes {
		if code != 202 {
			bad("status", fmt.Sprintf("request %d to %s answered %d", i, br.paths[i], code))
		}
	}
	if tc.Event != nil {
		if len(rec.Events) != 1 {
			bad("event-count", fmt.Sprintf("%d events dispatched by the receiver", len(rec.Events)))
			return
		}
		g, w := rec.Events[0], tc.Event
		gt, wt := fmt.Sprintf("%q", []string(g.Tags)), fmt.Sprintf("%q", []string(w.Tags))
		wantDate := w.DateHappened
		if wantDate == 0 {
			// a date of 0 is "no date" on the wire; the receiving end then uses the time of receipt (C19) - the wall clock,
			// in the ingestion handler: anything from the start of this process until now
			if now := time.Now().Unix(); g.DateHappened >= processStart && g.DateHappened <= now {
				wantDate = g.DateHappened
			}
		}
		if g.Title != w.Title || g.Text != w.Text || g.DateHappened != wantDate || g.Source != w.Source || g.AggregationKey != w.AggregationKey || g.SourceTypeName != w.SourceTypeName || g.Priority != w.Priority || g.AlertType != w.AlertType || gt != wt {
			bad("event-fields", fmt.Sprintf("received %+v", *g))
		}
		nontrivial[fmt.Sprintf("%+v%v", *tc.Event, tc.Comp)] = struct{}{}
		return
	}
	// first request is the forwarder's start-up no-op (an empty map): it must dispatch an empty map or nothing
	var valid, invalid []sd
	given := tc.Series
	if tc.Apart {
		given = fold(tc.Series)
	}
	for _, s := range given {
		if s.validUTF8() {
			valid = append(valid, s)
		} else {
			invalid = append(invalid, s.sanitized())
		}
	}
	canonSortTimers = tc.Apart
	defer func() { canonSortTimers = false }()
	want := canon(buildMap(valid))
	var got []string
	for _, m := range rec.Maps {
		if c := canon(m); c != "" {
			got = append(got, c)
		}
		// timestamps are not carried: the ingesting server stamps what it decodes with its time of receipt - every
		// series of one request with the same, non-zero time (a series stamped 0 would expire at the next flush)
		var stamps []gostatsd.Nanotime
		m.Counters.Each(func(_, _ string, c gostatsd.Counter) { stamps = append(stamps, c.Timestamp) })
		m.Gauges.Each(func(_, _ string, g gostatsd.Gauge) { stamps = append(stamps, g.Timestamp) })
		m.Timers.Each(func(_, _ string, t gostatsd.Timer) { stamps = append(stamps, t.Timestamp) })
		m.Sets.Each(func(_, _ string, s gostatsd.Set) { stamps = append(stamps, s.Timestamp) })
		for _, ts := range stamps {
			if ts <= 0 || ts != stamps[0] {
				bad("receive-timestamp", fmt.Sprintf("the series decoded from one request carry the timestamps %v (want one non-zero time of receipt for all)", stamps))
				break
			}
		}
	}
	if len(invalid) == 0 {
		if len(got) != 1 || got[0] != want {
			bad("roundtrip", fmt.Sprintf("receiver dispatched\n%s\nwant\n%s", strings.Join(got, "\n--\n"), want))
		}
	} else {
		// the well-formed series must arrive exactly; a series with a string protobuf cannot carry may
		// arrive with the offending bytes replaced, or not at all - nothing else may appear
		gotLines := map[string]bool{}
		for _, g := range got {
			for _, ln := range strings.Split(g, "\n") {
				gotLines[ln] = true
			}
		}
		if len(got) > 1 {
			bad("roundtrip", fmt.Sprintf("receiver dispatched %d non-empty maps for one batch", len(got)))
		}
		allowed := map[string]bool{}
		for _, ln := range strings.Split(canon(buildMap(invalid)), "\n") {
			allowed[ln] = true
		}
		if want != "" {
			for _, ln := range strings.Split(want, "\n") {
				if !gotLines[ln] {
					bad("roundtrip-beside-invalid-utf8", fmt.Sprintf("well-formed series %s did not arrive intact beside a series with invalid UTF-8; receiver dispatched\n%s", ln, strings.Join(got, "\n--\n")))
				}
				delete(gotLines, ln)
			}
		}
		for ln := range gotLines {
			if !allowed[ln] {
				bad("roundtrip-invalid-utf8", fmt.Sprintf("receiver dispatched %s, which is neither a series given nor the sanitised form of one", ln))
			}
		}
	}
	nontrivial[want+fmt.Sprint(len(invalid), tc.Comp)] = struct{}{}
}

// retryCase: event A is refused once by the upstream, event B is sent while A waits for its retry, then
// A is retried: the receiver must end up with exactly {A, B}.
func retryCase(a, b *gostatsd.Event, c comp) {
	res.Evaluations++
	rec := &fx.Recorder{}
	var cerr error
	o := vsched.RunOnce(func() {
		ctx, mock := fx.NewClock(context.Background())
		clock.VerifDefault = vsched.EnvGet("clock").(clock.Clock)
		h, br, err := newForwarder(c, rec)
		cerr = err
		if err != nil {
			return
		}
		vsched.GoNamed("fwd.Run", func() { h.Run(ctx) })
		vsched.Quiesce("up")
		br.failNext = 1
		ea, eb := *a, *b
		h.DispatchEvent(ctx, &ea)
		vsched.Quiesce("a-refused")
		h.DispatchEvent(ctx, &eb)
		vsched.Quiesce("b-sent")
		vtime.Advance(mock, time.Second)
		vsched.Quiesce("a-retried")
		vtime.Advance(mock, time.Second)
		h.WaitForEvents()
	})
	bad := func(kind, msg string) {
		res.Violate(kind, fmt.Sprintf("%s: compression %+v events A=%+v B=%+v: %s", kind, c, *a, *b, msg), map[string]any{"a": a, "b": b, "comp": c})
	}
	if cerr != nil || o.Kind != "ok" {
		bad("retry-run", fmt.Sprint(cerr, o.Kind, o.Detail))
		return
	}
	var titles []string
	for _, e := range rec.Events {
		titles = append(titles, e.Title)
	}
	sort.Strings(titles)
	want := []string{a.Title, b.Title}
	sort.Strings(want)
	if fmt.Sprint(titles) != fmt.Sprint(want) {
		bad("retry-body-changed", fmt.Sprintf("after one refused attempt of A the receiver got events %q, want %q", titles, want))
	}
	nontrivial[fmt.Sprintf("retry%+v%+v%v", *a, *b, c)] = struct{}{}
}

func seriesMenu() []sd {
	var out []sd
	tagLists := []struct {
		t   []string
		nil bool
	}{{nil, true}, {[]string{}, false}, {[]string{"t"}, false}, {[]string{"k:v", "t"}, false}, {[]string{"é:ü"}, false}}
	names := []string{"a", "a.b"}
	i := 0
	pick := func() (string, []string, bool, string) {
		i++
		tl := tagLists[i%len(tagLists)]
		return names[i%2], tl.t, tl.nil, []string{"", "h"}[(i/2)%2]
	}
	for _, v := range []int64{0, -1, 1 << 53, math.MinInt64, 7} {
		for k := 0; k < 3; k++ {
			n, t, tn, s := pick()
			out = append(out, sd{Type: "c", Name: n, Tags: t, TagsNil: tn, Source: s, I: v})
		}
	}
	for _, v := range []F{0, F(math.Copysign(0, -1)), 1.5, 1e308, F(math.Inf(1)), F(math.Inf(-1)), F(math.NaN())} {
		for k := 0; k < 2; k++ {
			n, t, tn, s := pick()
			out = append(out, sd{Type: "g", Name: n, Tags: t, TagsNil: tn, Source: s, F: v})
		}
	}
	for _, vs := range [][]F{{}, {1}, {1, F(math.NaN()), 2}, {F(math.Inf(1)), F(math.Copysign(0, -1))}} {
		for _, sc := range []F{0, 1, 2.5} {
			n, t, tn, s := pick()
			out = append(out, sd{Type: "t", Name: n, Tags: t, TagsNil: tn, Source: s, Vals: vs, SC: sc})
		}
	}
	for _, ms := range [][]string{{}, {""}, {"x", "é"}} {
		for k := 0; k < 2; k++ {
			n, t, tn, s := pick()
			out = append(out, sd{Type: "s", Name: n, Tags: t, TagsNil: tn, Source: s, Members: ms})
		}
	}
	// strings that are not valid UTF-8 (protobuf cannot carry them: the forwarder replaces the offending
	// bytes; the other series of the batch must come through untouched - see roundTrip)
	out = append(out,
		sd{Type: "s", Name: "bad.s", Tags: []string{"t"}, Source: "h", Members: []string{"ok", "m\xff"}},
		sd{Type: "c", Name: "bad.c", Tags: []string{"k:\xfe"}, Source: "", I: 2},
		sd{Type: "g", Name: "bad\xc3.g", Tags: nil, TagsNil: true, Source: "h", F: 1.5},
		sd{Type: "t", Name: "bad.t", Tags: []string{"t"}, Source: "h\x80", Vals: []F{1, 2}, SC: 8})
	// every tag list x source on one counter
	for _, tl := range tagLists {
		for _, s := range []string{"", "h"} {
			out = append(out, sd{Type: "c", Name: "a", Tags: tl.t, TagsNil: tl.nil, Source: s, I: 3})
		}
	}
	return out
}

func eventMenu() []*gostatsd.Event {
	var out []*gostatsd.Event
	for _, pr := range []gostatsd.Priority{gostatsd.PriNormal, gostatsd.PriLow} {
		for _, al := range []gostatsd.AlertType{gostatsd.AlertInfo, gostatsd.AlertWarning, gostatsd.AlertError, gostatsd.AlertSuccess} {
			for k := 0; k < 3; k++ {
				e := &gostatsd.Event{Priority: pr, AlertType: al}
				if k >= 1 {
					e.Title, e.Text, e.DateHappened, e.Source, e.AggregationKey, e.SourceTypeName = "ti", "line1\nline2", 1700000000, "1.2.3.4", "key", "src"
					e.Tags = gostatsd.Tags{"a", "k:v"}
				}
				if k == 2 {
					e.Title, e.Text, e.DateHappened, e.Tags = "é", "", -5, gostatsd.Tags{}
				}
				out = append(out, e)
			}
		}
	}
	return out
}

func runRoundtrip() {
	menu := seriesMenu()
	res.Info["series_menu"] = len(menu)
	cs := comps()
	var i int64
	for _, c := range cs {
		for a := range menu {
			i++
			if vrt.Mine(i) {
				roundTrip(rtcase{Series: []sd{menu[a]}, Comp: c})
			}
		}
		for _, e := range eventMenu() {
			i++
			if vrt.Mine(i) {
				roundTrip(rtcase{Event: e, Comp: c})
			}
		}
	}
	// pairs (and triples in thorough) under three representative compressions
	for _, c := range cs {
		for a := range menu {
			for b := a + 1; b < len(menu); b++ {
				i++
				if !vrt.Mine(i) {
					continue
				}
				roundTrip(rtcase{Series: []sd{menu[a], menu[b]}, Comp: c})
				if vrt.Thorough() && c.Type != "none" {
					for d := b + 1; d < len(menu); d += 3 {
						roundTrip(rtcase{Series: []sd{menu[a], menu[b], menu[d]}, Comp: c})
					}
				}
			}
		}
	}
	// batches dispatched one after the other and combined by the forwarder before its flush
	colliding := [][]sd{
		{{Type: "c", Name: "a", Tags: []string{"t"}, Source: "h", I: 3}, {Type: "c", Name: "a", Tags: []string{"t"}, Source: "h", I: 4}},
		{{Type: "c", Name: "a", I: 1}, {Type: "c", Name: "a", I: math.MaxInt64 - 1}, {Type: "c", Name: "a", Source: "h", I: 2}},
		{{Type: "t", Name: "a", Tags: []string{"t"}, Vals: []F{1, 2}, SC: 2.5}, {Type: "t", Name: "a", Tags: []string{"t"}, Vals: []F{3}, SC: 4}},
		{{Type: "t", Name: "a", Vals: []F{5}, SC: 1}, {Type: "t", Name: "a", Vals: []F{}, SC: 0}, {Type: "t", Name: "a", Vals: []F{5, 5}, SC: 20}},
		{{Type: "s", Name: "a", Source: "h", Members: []string{"x"}}, {Type: "s", Name: "a", Source: "h", Members: []string{"x", "y"}}},
		{{Type: "s", Name: "a", Members: []string{}}, {Type: "s", Name: "a", Members: []string{"z"}}, {Type: "s", Name: "a", Members: []string{}}},
		{{Type: "c", Name: "a", I: 1}, {Type: "t", Name: "a", Vals: []F{1}, SC: 1}, {Type: "s", Name: "a", Members: []string{"m"}}, {Type: "g", Name: "a", F: 2}, {Type: "c", Name: "a", I: 1}},
		{{Type: "t", Name: "bad.t", Tags: []string{"t"}, Source: "h\x80", Vals: []F{1, 2}, SC: 8}, {Type: "t", Name: "a", Vals: []F{1}, SC: 4}, {Type: "t", Name: "a", Vals: []F{2}, SC: 4}},
	}
	for _, c := range cs {
		for _, ss := range colliding {
			i++
			if vrt.Mine(i) {
				roundTrip(rtcase{Series: ss, Comp: c, Apart: true})
				rev := append([]sd{}, ss...)
				for l, r := 0, len(rev)-1; l < r; l, r = l+1, r-1 {
					rev[l], rev[r] = rev[r], rev[l]
				}
				roundTrip(rtcase{Series: rev, Comp: c, Apart: true})
			}
		}
	}
	// a retried body must still be the body it was (a refused attempt, another event in between)
	long := &gostatsd.Event{Title: "event-A-with-a-long-title", Text: strings.Repeat("long text ", 20), Tags: gostatsd.Tags{"a:1", "b:2"}}
	short := &gostatsd.Event{Title: "B", Text: "x"}
	for _, c := range cs {
		for _, pair := range [][2]*gostatsd.Event{{long, short}, {short, long}, {long, long}} {
			i++
			if vrt.Mine(i) {
				pa, pb := *pair[0], *pair[1]
				pb.Title += "'"
				retryCase(&pa, &pb, c)
			}
		}
	}
	res.Sample(map[string]any{"series": fmt.Sprint(menu[3], menu[40]), "compression": comp{Type: "lz4", Level: 3}})
}

// ---- corrupt bodies

func refDecode(path, enc string, body []byte) bool {
	var raw []byte
	switch enc {
	case "deflate":
		zr, err := zlib.NewReader(bytes.NewReader(body))
		if err != nil {
			return false
		}
		b, err := io.ReadAll(zr)
		if err != nil {
			return false
		}
		raw = b
	case "lz4":
		b, err := io.ReadAll(lz4.NewReader(bytes.NewReader(body)))
		if err != nil {
			return false
		}
		raw = b
	default:
		raw = body
	}
	if path == "/v2/raw" {
		var m pb.RawMessageV2
		return proto.Unmarshal(raw, &m) == nil
	}
	var e pb.EventV2
	return proto.Unmarshal(raw, &e) == nil
}

func runCorrupt() {
	rec := &fx.Recorder{}
	rt, err := fx.IngestionRouter(rec, "rx")
	if err != nil {
		panic(err)
	}
	var menu []sd
	for _, s := range seriesMenu() {
		if s.validUTF8() {
			menu = append(menu, s)
		}
	}
	type valid struct {
		path string
		raw  []byte
	}
	var vs []valid
	for k := 0; k < len(menu) && len(vs) < 34; k += 2 {
		mm := buildMap([]sd{menu[k], menu[(k+7)%len(menu)]})
		b, err := proto.MarshalOptions{Deterministic: true}.Marshal(statsd.VerifTranslate(mm))
		if err != nil {
			panic(err)
		}
		vs = append(vs, valid{"/v2/raw", b})
	}
	for k, e := range eventMenu() {
		if k%4 == 1 {
			b, _ := proto.Marshal(&pb.EventV2{Title: e.Title, Text: e.Text, Tags: e.Tags, DateHappened: e.DateHappened, Hostname: string(e.Source)})
			vs = append(vs, valid{"/v2/event", b})
		}
	}
	res.Info["valid_bodies"] = len(vs)
	post := func(path, enc string, body []byte, what string) {
		res.Evaluations++
		rec.Reset()
		req := httptest.NewRequest("POST", path, bytes.NewReader(body))
		if enc != "" {
			req.Header.Set("Content-Encoding", enc)
		}
		w := httptest.NewRecorder()
		rp := map[string]any{"path": path, "enc": enc, "body": body}
		if p := func() (p any) {
			defer func() { p = recover() }()
			rt.ServeHTTP(w, req)
			return nil
		}(); p != nil {
			// net/http would drop the connection: the client gets no status at all
			res.Violate("handler-panic", fmt.Sprintf("%s %s enc=%q body=%x: the request handler panicked (no status is answered): %v", what, path, enc, body, p), rp)
			return
		}
		dispatched := len(rec.Maps)+len(rec.Events) > 0
		switch {
		case w.Code >= 200 && w.Code < 300:
			if !refDecode(path, enc, body) {
				res.Violate("accepted-undecodable", fmt.Sprintf("%s %s enc=%q body=%x answered %d although the body cannot be decoded", what, path, enc, body, w.Code), rp)
			}
			nontrivial[fmt.Sprintf("%s%s%x", path, enc, body)] = struct{}{}
		case w.Code >= 400:
			if dispatched {
				res.Violate("dispatch-on-error", fmt.Sprintf("%s %s enc=%q body=%x answered %d but dispatched data", what, path, enc, body, w.Code), rp)
			}
			if refDecode(path, enc, body) && w.Code != 400 {
				res.Violate("rejected-decodable", fmt.Sprintf("%s %s enc=%q answered %d for a decodable body", what, path, enc, w.Code), rp)
			}
		default:
			res.Violate("status", fmt.Sprintf("%s %s enc=%q answered %d", what, path, enc, w.Code), rp)
		}
	}
	var i int64
	for _, v := range vs {
		for _, enc := range []string{"", "deflate", "lz4"} {
			body := v.raw
			var buf bytes.Buffer
			switch enc {
			case "deflate":
				web.CompressWithZlib(v.raw, &buf, 6)
				body = append([]byte{}, buf.Bytes()...)
			case "lz4":
				web.CompressWithLz4(v.raw, &buf, 1)
				body = append([]byte{}, buf.Bytes()...)
			}
			i++
			if !vrt.Mine(i) {
				continue
			}
			post(v.path, enc, body, "valid")
			for k := 0; k < len(body); k++ {
				post(v.path, enc, body[:k], "truncated")
			}
			for p := 0; p < 8 && len(body) > 0; p++ {
				pos := p * len(body) / 8
				for _, x := range []byte{0x00, 0xff, body[pos] ^ 0x01, body[pos] ^ 0x80} {
					m := append([]byte{}, body...)
					m[pos] = x
					post(v.path, enc, m, "substituted")
				}
			}
		}
	}
	res.Sample(map[string]any{"family": "corrupt", "path": "/v2/raw", "enc": "deflate", "mutation": "truncation at every length"})
}

var processStart = time.Now().Unix()

func main() {
	res = vrt.Init()
	if *vrt.ReplayPath != "" {
		if *vrt.Sub == "corrupt" {
			fmt.Println("replay of corrupt-body cases: re-run the sub-harness; the case is printed in the violation message")
			runCorrupt()
		} else {
			var tc rtcase
			vrt.LoadReplay(&tc)
			roundTrip(tc)
		}
		for _, v := range res.Violations {
			fmt.Println(v.Key, "\n ", v.Msg)
		}
		if len(res.Violations) > 0 {
			fmt.Printf("VIOLATION property=C14 replay=%s\n", *vrt.ReplayPath)
			os.Exit(1)
		}
		return
	}
	switch *vrt.Sub {
	case "roundtrip":
		runRoundtrip()
	case "corrupt":
		runCorrupt()
	}
	res.DistinctNontrivial = int64(len(nontrivial))
	res.States = int64(len(nontrivial))
	res.Transitions = res.Evaluations
	res.Traces = res.Evaluations
	res.Finish()
}
