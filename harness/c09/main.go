// C09: series persist until their type's expiry interval elapses, then disappear.
package main

import (
	"fmt"
	"math"
	"os"
	"sort"
	"strings"
	"time"

	"github.com/atlassian/gostatsd"
	"github.com/atlassian/gostatsd/internal/verif/lib/fx"
	"github.com/atlassian/gostatsd/internal/verif/vrt"
	"github.com/atlassian/gostatsd/pkg/statsd"
)

const E = 10 * time.Second

var res *vrt.Result

// ops: 0..3 datapoint of type c,g,s,ms with a fresh value; 4,5 gauge / set datapoint repeating the previous value;
// 6..8 clock step ; 9 flush
var opNames = []string{"dp:c", "dp:g", "dp:s", "dp:ms", "dp:g(same value)", "dp:s(same member)", "step:E/2", "step:E", "step:E+1ns", "flush"}

const (
	nDP    = 6
	opStep = 6
	opFlsh = 9
)

var steps = []time.Duration{E / 2, E, E + 1}
var types = []string{"c", "g", "s", "t"}

type cfg struct{ Exp [4]time.Duration } // expiry per type c,g,s,t

// histTimer: the configurations whose counter expiry is the positive interval run their timer with a gsd_histogram tag
func histTimer(c cfg) bool { return c.Exp[0] > 0 }

// serverFor builds the statsd.Server for an expiry configuration exactly as the gostatsd command does: from a
// command line, through setupConfiguration and constructServer (this harness is compiled into cmd/gostatsd).
// The most common value goes on --expiry-interval, from which the per-type settings inherit; only the
// types that differ get their own flag.
var servers = map[[4]time.Duration]*statsd.Server{}

func serverFor(c cfg) *statsd.Server {
	if s := servers[c.Exp]; s != nil {
		return s
	}
	count := map[time.Duration]int{}
	for _, e := range c.Exp {
		count[e]++
	}
	main, best := c.Exp[0], 0
	for _, e := range c.Exp { // first most frequent value, deterministic
		if count[e] > best {
			main, best = e, count[e]
		}
	}
	args := []string{"gostatsd", "--backends=null", "--percent-threshold=90", "--timer-histogram-limit=0", "--expiry-interval=" + main.String()}
	for i, name := range []string{"counter", "gauge", "set", "timer"} {
		if c.Exp[i] != main {
			args = append(args, "--expiry-interval-"+name+"="+c.Exp[i].String())
		}
	}
	s := verifServer(args[2:], nil)
	// what the command line said must be what the server is configured with (a wrong value may need more virtual
	// time than the histories below cover to become visible, e.g. 5m instead of "keep forever")
	if got := [4]time.Duration{s.ExpiryIntervalCounter, s.ExpiryIntervalGauge, s.ExpiryIntervalSet, s.ExpiryIntervalTimer}; got != c.Exp {
		res.Violate("expiry-configuration", fmt.Sprintf("command line %v gives the server expiry intervals counter=%v gauge=%v set=%v timer=%v, want %v", args[1:], got[0], got[1], got[2], got[3], c.Exp), map[string]any{"cfg": c, "seq": []int{}})
	}
	servers[c.Exp] = s
	return s
}

// reference state per type
type rser struct {
	present bool
	last    time.Duration // time of last datapoint
	pending int           // datapoints since last flush
	gauge   []float64     // values of the datapoints carrying the newest timestamp (any of them may be kept, C07)
}

type world struct {
	ag      *statsd.MetricAggregator
	now     time.Duration
	ref     [4]rser
	nval    float64
	members map[float64]bool // set members received since the last flush
}

func newWorld(c cfg) *world {
	w := &world{}
	w.ag = statsd.VerifWiredAggregator(*serverFor(c))
	w.ag.VerifSetNow(func() time.Time { return fx.Epoch.Add(w.now) })
	return w
}

func (w *world) ts() gostatsd.Nanotime { return gostatsd.Nanotime(fx.Epoch.Add(w.now).UnixNano()) }

// apply performs op; returns a violation message or "".
func (w *world) apply(c cfg, op int) string {
	switch {
	case op < nDP:
		repeat := op >= 4
		if op == 4 {
			op = 1
		} else if op == 5 {
			op = 2
		}
		if !repeat || w.nval == 0 {
			w.nval++
		}
		mm := gostatsd.NewMetricMap(false)
		ty := []gostatsd.MetricType{gostatsd.COUNTER, gostatsd.GAUGE, gostatsd.SET, gostatsd.TIMER}[op]
		var tags gostatsd.Tags
		if ty == gostatsd.TIMER && histTimer(c) {
			tags = gostatsd.Tags{"gsd_histogram:1_5"} // (in a quarter of the configurations the timer is a histogram timer)
		}
		mm.Receive(&gostatsd.Metric{Name: "x", Type: ty, Value: w.nval, StringValue: fmt.Sprint("m", w.nval), Rate: 1, Tags: tags, Timestamp: w.ts()})
		w.ag.ReceiveMap(mm)
		r := &w.ref[op]
		if ty == gostatsd.SET {
			if w.members == nil {
				w.members = map[float64]bool{}
			}
			if w.members[w.nval] {
				r.pending-- // the same member again does not grow the set
			}
			w.members[w.nval] = true
		}
		if !r.present || w.now > r.last {
			r.gauge = nil
		}
		r.gauge = append(r.gauge, w.nval)
		r.present, r.last = true, w.now
		r.pending++
	case op < opFlsh:
		w.now += steps[op-opStep]
	default:
		w.members = nil
		w.ag.Flush(time.Second)
		var snap []fx.Series
		var timers []gostatsd.Timer
		var counters []gostatsd.Counter
		w.ag.Process(func(m *gostatsd.MetricMap) {
			snap = fx.Snapshot(m)
			m.Timers.Each(func(_, _ string, t gostatsd.Timer) { timers = append(timers, t) })
			m.Counters.Each(func(_, _ string, c gostatsd.Counter) { counters = append(counters, c) })
		})
		w.ag.Reset()
		reported := map[string]fx.Series{}
		for _, s := range snap {
			if _, dup := reported[s.Type]; dup {
				return "series of type " + s.Type + " reported twice"
			}
			reported[s.Type] = s
		}
		for i, ty := range types {
			r := &w.ref[i]
			s, ok := reported[ty]
			if r.present != ok {
				if r.present {
					return fmt.Sprintf("type %s: expected to be reported (last datapoint %v ago, expiry %v) but absent", ty, w.now-r.last, c.Exp[i])
				}
				return fmt.Sprintf("type %s: reported although expired/never sent", ty)
			}
			if !r.present {
				continue
			}
			idle := r.pending == 0
			switch ty {
			case "c":
				if idle && (s.Count != 0 || counters[0].PerSecond != 0) {
					return fmt.Sprintf("idle counter reported with value %d rate %v", s.Count, counters[0].PerSecond)
				}
				if !idle && s.Count == 0 {
					return "counter with data reported as 0"
				}
			case "g":
				ok := false
				for _, g := range r.gauge {
					ok = ok || s.Gauge == g
				}
				if !ok {
					return fmt.Sprintf("gauge reported %v, values at the newest timestamp %v", s.Gauge, r.gauge)
				}
			case "s":
				if idle && len(s.Members) != 0 {
					return fmt.Sprintf("idle set reported with members %v", s.Members)
				}
				if !idle && len(s.Members) != r.pending {
					return fmt.Sprintf("set reported %d members, received %d", len(s.Members), r.pending)
				}
			case "t":
				t := timers[0]
				if histTimer(c) {
					// a histogram timer reports bucket counts only: none in an idle interval, all values under +Inf otherwise
					total := 0
					for th, n := range t.Histogram {
						if idle && n != 0 {
							return fmt.Sprintf("idle histogram timer reported with %d values in bucket %v (values %v)", n, th, t.Values)
						}
						if math.IsInf(float64(th), 1) {
							total = n
						}
					}
					if idle && len(t.Values) != 0 {
						return fmt.Sprintf("idle histogram timer reported with values %v", t.Values)
					}
					if !idle && len(t.Histogram) > 0 && total != r.pending {
						return fmt.Sprintf("histogram timer reports %d values, received %d", total, r.pending)
					}
					break
				}
				if idle && (t.Count != 0 || len(t.Percentiles) != 0 || len(t.Values) != 0 || t.PerSecond != 0) {
					return fmt.Sprintf("idle timer reported with count %d percentiles %v values %v", t.Count, t.Percentiles, t.Values)
				}
				// an interval without values has no statistics of its own: whatever is reported must not be left over
				// from an earlier interval
				if idle && (t.Min != 0 || t.Max != 0 || t.Sum != 0 || t.SumSquares != 0 || t.Mean != 0 || t.Median != 0 || t.StdDev != 0 || t.SampledCount != 0) {
					return fmt.Sprintf("idle timer reported with statistics of an earlier interval: min %v max %v sum %v mean %v median %v stddev %v sum_squares %v sampled %v", t.Min, t.Max, t.Sum, t.Mean, t.Median, t.StdDev, t.SumSquares, t.SampledCount)
				}
				if !idle && t.Count != r.pending {
					return fmt.Sprintf("timer count %d, received %d", t.Count, r.pending)
				}
			}
			r.pending = 0
			// expiry rule: this flush was the last one if it happened more than the expiry after the last datapoint
			if c.Exp[i] != 0 && w.now-r.last > c.Exp[i] {
				r.present = false
			}
		}
	}
	return ""
}

func (w *world) canon() (string, bool) {
	var b strings.Builder
	persistedIdle := false
	snap := fx.Snapshot(w.ag.VerifMap())
	for _, s := range snap {
		age := int64(w.ts()) - s.TS
		fmt.Fprintf(&b, "%s:%d:%d:%d:%d;", s.Type, age, s.Count, len(s.Values), len(s.Members))
	}
	b.WriteString("//")
	for i := range w.ref {
		r := w.ref[i]
		if r.present {
			fmt.Fprintf(&b, "%d:%d:%d;", i, w.now-r.last, r.pending)
			if r.pending == 0 {
				persistedIdle = true
			}
		} else {
			b.WriteString("-;")
		}
	}
	return b.String(), persistedIdle
}

func replaySeq(c cfg, seq []int) (*world, string, int) {
	w := newWorld(c)
	for i, op := range seq {
		if m := w.apply(c, op); m != "" {
			return w, m, i
		}
	}
	return w, "", -1
}

func names(seq []int) []string {
	var o []string
	for _, s := range seq {
		o = append(o, opNames[s])
	}
	return o
}

func explore(c cfg, depth int, states map[string]struct{}, nontrivial map[string]struct{}) {
	type item struct{ seq []int }
	frontier := []item{{nil}}
	seen := map[string]bool{}
	w0 := newWorld(c)
	k0, _ := w0.canon()
	seen[k0] = true
	for d := 0; d < depth && len(frontier) > 0; d++ {
		var next []item
		for _, it := range frontier {
			if vrt.Stop() {
				return
			}
			for op := range opNames {
				seq := append(append([]int{}, it.seq...), op)
				w, msg, at := replaySeq(c, seq)
				res.Transitions++
				res.Evaluations++
				if msg != "" {
					res.Violate("expiry "+strings.SplitN(msg, ":", 2)[0], fmt.Sprintf("expiry c=%v g=%v s=%v ms=%v, sequence %v, at step %d: %s", c.Exp[0], c.Exp[1], c.Exp[2], c.Exp[3], names(seq), at, msg), map[string]any{"cfg": c, "seq": seq})
					continue
				}
				k, idle := w.canon()
				ck := fmt.Sprint(c.Exp) + k
				states[ck] = struct{}{}
				if idle {
					nontrivial[ck] = struct{}{}
				}
				if !seen[k] {
					seen[k] = true
					next = append(next, item{seq})
				}
			}
		}
		frontier = next
	}
}

func main() {
	res = vrt.Init()
	if *vrt.ReplayPath != "" {
		var rp struct {
			Cfg cfg
			Sib *sibCfg
			Seq []int
		}
		vrt.LoadReplay(&rp)
		if rp.Sib != nil {
			_, msg, at := sibReplay(*rp.Sib, rp.Seq)
			fmt.Println(sibNames(rp.Seq), "step", at, msg)
			if msg != "" {
				fmt.Printf("VIOLATION property=C09 replay=%s\n", *vrt.ReplayPath)
				os.Exit(1)
			}
			return
		}
		_, msg, at := replaySeq(rp.Cfg, rp.Seq)
		fmt.Println(names(rp.Seq), "step", at, msg)
		if msg != "" {
			fmt.Printf("VIOLATION property=C09 replay=%s\n", *vrt.ReplayPath)
			os.Exit(1)
		}
		return
	}
	depth := 6
	if vrt.Thorough() {
		depth = 8
	}
	res.Info["depth"] = depth
	exps := []time.Duration{-time.Second, 0, E, time.Duration(math.MaxInt64)} // the last one: "practically never" (the largest value the flags accept)
	states := map[string]struct{}{}
	nontrivial := map[string]struct{}{}
	var nStates, nNontrivial int64
	var i int64
	for _, a := range exps {
		for _, b := range exps {
			for _, cc := range exps {
				for _, d := range exps {
					i++
					if !vrt.Mine(i) {
						continue
					}
					// the state keys carry the configuration, so they are counted per configuration and let go: kept for the
					// whole run they exhausted the memory limit of a shard in the thorough tier (256 configurations, depth 8)
					st, nt := map[string]struct{}{}, map[string]struct{}{}
					explore(cfg{[4]time.Duration{a, b, cc, d}}, depth, st, nt)
					nStates += int64(len(st))
					nNontrivial += int64(len(nt))
				}
			}
		}
	}
	exploreSiblings(depth+1, states, nontrivial)
	res.Sample(map[string]any{"expiry": "c=10s g=0 s=-1s ms=10s", "sequence": []string{"dp:c", "dp:g", "step:E", "flush", "step:E+1ns", "flush", "flush"}})
	res.States = nStates + int64(len(states))
	res.DistinctNontrivial = nNontrivial + int64(len(nontrivial))
	res.Traces = res.Evaluations
	var ks []string
	for k := range states {
		ks = append(ks, k)
	}
	sort.Strings(ks)
	res.Finish()
}
