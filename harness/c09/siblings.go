package main

// Two series of one metric name (different tags) per type: each persists and expires on its own. The main
// exploration has one series per type, so an expiry that takes the neighbours under the same name with it
// (the aggregator stores series as name -> tag set -> series and removes a name once it has no children) or a
// datapoint that refreshes the wrong child would be invisible there.

import (
	"fmt"
	"strings"
	"time"

	"github.com/atlassian/gostatsd"
	"github.com/atlassian/gostatsd/internal/verif/lib/fx"
	"github.com/atlassian/gostatsd/internal/verif/vrt"
	"github.com/atlassian/gostatsd/pkg/statsd"
)

// ops: 0 datapoint for x{s:a}, 1 datapoint for x{s:b}, 2..4 clock steps, 5 flush
var sibOps = []string{"dp:x{s:a}", "dp:x{s:b}", "step:E/2", "step:E", "step:E+1ns", "flush"}

type sibCfg struct {
	Type int // 0 c, 1 g, 2 s, 3 ms
	Exp  time.Duration
}

type sibWorld struct {
	ag  *statsd.MetricAggregator
	now time.Duration
	ref [2]rser
	n   float64
}

func newSibWorld(c sibCfg) *sibWorld {
	w := &sibWorld{}
	w.ag = statsd.VerifWiredAggregator(*serverFor(cfg{[4]time.Duration{c.Exp, c.Exp, c.Exp, c.Exp}}))
	w.ag.VerifSetNow(func() time.Time { return fx.Epoch.Add(w.now) })
	return w
}

func (w *sibWorld) apply(c sibCfg, op int) string {
	switch {
	case op < 2:
		w.n++
		mm := gostatsd.NewMetricMap(false)
		ty := []gostatsd.MetricType{gostatsd.COUNTER, gostatsd.GAUGE, gostatsd.SET, gostatsd.TIMER}[c.Type]
		mm.Receive(&gostatsd.Metric{Name: "x", Type: ty, Value: w.n, StringValue: fmt.Sprint("m", w.n), Rate: 1, Tags: gostatsd.Tags{"s:" + string(rune('a'+op))}, Timestamp: gostatsd.Nanotime(fx.Epoch.Add(w.now).UnixNano())})
		w.ag.ReceiveMap(mm)
		r := &w.ref[op]
		r.present, r.last = true, w.now
		r.pending++
	case op < 5:
		w.now += steps[op-2]
	default:
		w.ag.Flush(time.Second)
		var snap []fx.Series
		w.ag.Process(func(m *gostatsd.MetricMap) { snap = fx.Snapshot(m) })
		w.ag.Reset()
		got := map[string]fx.Series{}
		for _, s := range snap {
			if s.Type != types[c.Type] || s.Name != "x" {
				return fmt.Sprintf("unexpected series %s %s[%s] reported", s.Type, s.Name, s.TagsKey)
			}
			if _, dup := got[s.TagsKey]; dup {
				return "series x[" + s.TagsKey + "] reported twice"
			}
			got[s.TagsKey] = s
		}
		for i := range w.ref {
			r := &w.ref[i]
			k := "s:" + string(rune('a'+i))
			s, ok := got[k]
			if r.present != ok {
				if r.present {
					return fmt.Sprintf("x[%s]: expected to be reported (last datapoint %v ago, expiry %v; its neighbour under the same name: present=%v last datapoint %v ago) but absent", k, w.now-r.last, c.Exp, w.ref[1-i].present, w.now-w.ref[1-i].last)
				}
				return fmt.Sprintf("x[%s]: reported although expired/never sent", k)
			}
			if !r.present {
				continue
			}
			n := 0
			switch c.Type {
			case 0:
				n = int(s.Count) // values are 1,2,3,...: never 0 when there is data
				if (r.pending == 0) != (n == 0) {
					return fmt.Sprintf("counter x[%s]: %d datapoints since the last flush, reported value %d", k, r.pending, n)
				}
			case 2:
				if len(s.Members) != r.pending {
					return fmt.Sprintf("set x[%s]: %d members received, %d reported", k, r.pending, len(s.Members))
				}
			case 3:
				if len(s.Values) != r.pending {
					return fmt.Sprintf("timer x[%s]: %d values received, %d reported", k, r.pending, len(s.Values))
				}
			}
			r.pending = 0
			if c.Exp != 0 && w.now-r.last > c.Exp {
				r.present = false
			}
		}
	}
	return ""
}

func (w *sibWorld) canon() string {
	var b strings.Builder
	for _, s := range fx.Snapshot(w.ag.VerifMap()) {
		fmt.Fprintf(&b, "%s:%d:%d:%d:%d;", s.TagsKey, int64(fx.Epoch.Add(w.now).UnixNano())-s.TS, s.Count, len(s.Values), len(s.Members))
	}
	b.WriteString("//")
	for i := range w.ref {
		if r := w.ref[i]; r.present {
			fmt.Fprintf(&b, "%d:%d:%d;", i, w.now-r.last, r.pending)
		} else {
			b.WriteString("-;")
		}
	}
	return b.String()
}

func sibReplay(c sibCfg, seq []int) (*sibWorld, string, int) {
	w := newSibWorld(c)
	for i, op := range seq {
		if m := w.apply(c, op); m != "" {
			return w, m, i
		}
	}
	return w, "", -1
}

func sibNames(seq []int) []string {
	var o []string
	for _, s := range seq {
		o = append(o, sibOps[s])
	}
	return o
}

func exploreSiblings(depth int, states, nontrivial map[string]struct{}) {
	var i int64
	for ty := 0; ty < 4; ty++ {
		for _, e := range []time.Duration{-time.Second, 0, E} {
			i++
			if !vrt.Mine(1000 + i) {
				continue
			}
			c := sibCfg{ty, e}
			frontier := [][]int{nil}
			seen := map[string]bool{newSibWorld(c).canon(): true}
			for d := 0; d < depth && len(frontier) > 0; d++ {
				var next [][]int
				for _, pre := range frontier {
					if vrt.Stop() {
						return
					}
					for op := range sibOps {
						seq := append(append([]int{}, pre...), op)
						w, msg, at := sibReplay(c, seq)
						res.Transitions++
						res.Evaluations++
						if msg != "" {
							res.Violate("siblings "+strings.SplitN(msg, ":", 2)[0], fmt.Sprintf("two series of one name, type %s, expiry %v, sequence %v, at step %d: %s", types[ty], e, sibNames(seq), at, msg), map[string]any{"sib": c, "seq": seq})
							continue
						}
						k := w.canon()
						ck := fmt.Sprint("sib", ty, e, k)
						states[ck] = struct{}{}
						if w.ref[0].present && w.ref[1].present && w.ref[0].last != w.ref[1].last {
							nontrivial[ck] = struct{}{}
						}
						if !seen[k] {
							seen[k] = true
							next = append(next, seq)
						}
					}
				}
				frontier = next
			}
		}
	}
}
