package main

// Shutdown: the consolidator flushes once more when the forwarder's context ends, and Run waits for what is in
// flight. A batch whose dispatch returned before the shutdown began is in that last flush: it must be posted
// (or counted as dropped) before Run returns - under every interleaving of the last merge with the draining of the
// request and merge semaphores.

import (
	"context"
	"fmt"
	"time"

	"github.com/cenkalti/backoff"
	"github.com/spf13/viper"
	"github.com/tilinna/clock"

	"github.com/atlassian/gostatsd"
	"github.com/atlassian/gostatsd/internal/verif/lib/fx"
	"github.com/atlassian/gostatsd/internal/verif/vsched"
	"github.com/atlassian/gostatsd/pkg/transport"
)

func shutdownBody(c cfg, r *run) func(*vsched.Exec) {
	return func(x *vsched.Exec) {
		*r = run{c: c, returned: make([]int, 1), obj: new(int), failsLeft: c.Failures}
		base, mock := fx.NewClock(context.Background())
		r.mock = mock
		w := vsched.EnvGet("clock").(clock.Clock)
		clock.VerifDefault = w
		backoff.VerifNow = func() time.Time { return w.Now() }
		ctx, cancel := context.WithCancel(base)
		pool := transport.NewTransportPool(fx.Quiet(), viper.New())
		hc, _ := pool.Get("default")
		hc.Client.Transport = upstream{r}
		hc.Client.Timeout = 0
		h, err := forwarderFromConfig(pool, nil, map[string]any{"consolidator-slots": c.Slots, "max-requests": c.MaxReq, "concurrent-merge": c.Merge, "compress": false, "max-request-elapsed-time": c.Elapsed, "flush-interval": time.Second})
		if err != nil {
			panic(err)
		}
		r.h = h
		vsched.GoNamed("fwd.Run", func() {
			h.Run(ctx)
			vsched.Access(r.obj, true, "run-returned")
			r.runReturned = true
			// whatever the last flush held has been posted by now, or it never will be
			delivered, attempts := false, 0
			for _, a := range r.attempts {
				for _, n := range a.names {
					if n == dpName(0, 0, 0) {
						attempts++
						delivered = delivered || a.outcome == 0
					}
				}
			}
			if cn := h.VerifCounters(); !delivered && cn[4] == 0 {
				r.fail("lost-at-shutdown", fmt.Sprintf("Run returned; the datapoint dispatched before the shutdown was not delivered (%d attempts) and nothing was counted as dropped (created %d sent %d dropped %d)", attempts, cn[1], cn[2], cn[4]))
			}
		})
		vsched.Quiesce("started")
		mm := gostatsd.NewMetricMap(false)
		mm.Receive(&gostatsd.Metric{Name: dpName(0, 0, 0), Type: gostatsd.COUNTER, Value: 1, Rate: 1, Timestamp: 5})
		h.DispatchMetricMap(ctx, mm)
		vsched.Cancel(cancel)
		vsched.Quiesce("shut-down")
		// a refused attempt is retried after its back-off, shutdown or not: time passes until Run is through
		for step := 0; step < 8 && !r.runReturned && mock.Len() > 0; step++ {
			vsched.ClockOp(true, "advance-next")
			mock.AddNext()
			vsched.Quiesce("after-advance")
		}
		if !r.runReturned {
			r.fail("run-did-not-return", "HttpForwarderHandlerV2.Run is still running after its context ended and everything came to rest")
		}
	}
}
