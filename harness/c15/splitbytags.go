package main

// "Splitting by dynamic-header tags puts each series in exactly one request carrying the matching header":
// the split itself (MetricMap.SplitByTags, what the forwarder's flush calls), enumerated over maps of
// 1-3 series of every type drawn from a menu with colliding names, and over header-name lists.
// Oracle: (1) the parts are a partition of the map - every series, with its own key and content, in exactly
// one part; (2) two series are in the same part if and only if they carry the same values for the header
// names (a name the series has no tag for counts as "absent").

import (
	"fmt"
	"sort"
	"strings"

	"github.com/atlassian/gostatsd"
	"github.com/atlassian/gostatsd/internal/verif/lib/fx"
	"github.com/atlassian/gostatsd/internal/verif/vrt"
)

type splitSer struct {
	Type gostatsd.MetricType
	Name string
	Tags []string
	Host string
}

func splitMenu() []splitSer {
	var out []splitSer
	tagSets := [][]string{nil, {"region:us"}, {"region:eu", "svc:x"}, {"svc:x"}, {"other:y", "region:us"}}
	for _, ty := range []gostatsd.MetricType{gostatsd.COUNTER, gostatsd.GAUGE, gostatsd.TIMER, gostatsd.SET} {
		for ti, ts := range tagSets {
			out = append(out, splitSer{ty, "a", ts, ""})
			if ti == 1 || ti == 2 {
				out = append(out, splitSer{ty, "a", ts, "h2"}) // same name and header values, another series
			}
		}
		out = append(out, splitSer{ty, "b", tagSets[1], ""})
	}
	return out
}

func headerValues(tags []string, names []string) string {
	var v []string
	for _, n := range names {
		val := "<absent>"
		for _, t := range tags {
			if strings.HasPrefix(t, n+":") {
				val = strings.TrimPrefix(t, n+":")
			}
		}
		v = append(v, n+"="+val)
	}
	return strings.Join(v, ";")
}

func checkSplitByTags(res *vrt.Result) {
	menu := splitMenu()
	nameLists := [][]string{{"region"}, {"region", "svc"}, {"svc", "region"}, {"svc"}}
	build := func(idx []int) *gostatsd.MetricMap {
		mm := gostatsd.NewMetricMap(false)
		for k, i := range idx {
			s := menu[i]
			mm.Receive(&gostatsd.Metric{Name: s.Name, Type: s.Type, Value: float64(k + 1), StringValue: fmt.Sprint("m", k), Rate: 1, Tags: append(gostatsd.Tags{}, s.Tags...), Source: gostatsd.Source(s.Host), Timestamp: 5})
		}
		return mm
	}
	var n int64
	check := func(idx []int) {
		for _, names := range nameLists {
			n++
			if !vrt.Mine(n) {
				continue
			}
			res.Evaluations++
			whole := fx.Snapshot(build(idx))
			parts := build(idx).SplitByTags(names)
			bad := func(kind, msg string) {
				var d []string
				for _, i := range idx {
					d = append(d, fmt.Sprintf("%v:%s%v@%s", menu[i].Type, menu[i].Name, menu[i].Tags, menu[i].Host))
				}
				res.Violate("split-by-tags "+kind, fmt.Sprintf("split-by-tags %s: map %v, header names %v: %s", kind, d, names, msg), map[string]any{"splitByTags": idx, "names": names})
			}
			var union []fx.Series
			partOf := map[string]string{} // series -> part key
			groupOf := map[string]string{}
			for pk, p := range parts {
				for _, s := range fx.Snapshot(p) {
					id := s.Type + "|" + s.Name + "|" + s.TagsKey
					if prev, dup := partOf[id]; dup {
						bad("not-a-partition", fmt.Sprintf("series %s is in the parts %q and %q", id, prev, pk))
					}
					partOf[id] = pk
					groupOf[id] = headerValues(s.Tags, names)
					union = append(union, s)
				}
			}
			sort.Slice(union, func(i, j int) bool { return union[i].Key() < union[j].Key() })
			sort.Slice(whole, func(i, j int) bool { return whole[i].Key() < whole[j].Key() })
			if fx.String(union, true) != fx.String(whole, true) {
				bad("not-a-partition", fmt.Sprintf("the parts together hold\n %s\nthe map holds\n %s", fx.String(union, true), fx.String(whole, true)))
				continue
			}
			for a, pa := range partOf {
				for b, pb := range partOf {
					if (pa == pb) != (groupOf[a] == groupOf[b]) {
						bad("grouping", fmt.Sprintf("series %s (header values %s) is in part %q, series %s (header values %s) in part %q", a, groupOf[a], pa, b, groupOf[b], pb))
					}
				}
			}
		}
	}
	for a := range menu {
		check([]int{a})
		for b := a + 1; b < len(menu); b++ {
			check([]int{a, b})
			for c := b + 1; c < len(menu); c++ {
				if (a+b+c)%4 == 0 || vrt.Thorough() {
					check([]int{a, b, c})
				}
			}
		}
	}
}
