package main

// The forwarder's own metrics goroutine (RunMetricsContext) beside the posting goroutines: it resets the
// "slowest post" gauge with an atomic swap while a post that has just succeeded updates it with a
// load / compare-and-swap loop. Whatever happens to the gauge, a delivered body must not be posted again.
// Two flushes, scripted upstream (a slow response, no failure): the first flush's body is answered after 100 ms,
// the second's after 300 ms (so that its post is the slowest so far and does update the gauge); the emission is
// requested at any point of the second flush.

import (
	"context"
	"time"

	"github.com/cenkalti/backoff"
	"github.com/spf13/viper"
	"github.com/tilinna/clock"

	"github.com/atlassian/gostatsd"
	"github.com/atlassian/gostatsd/internal/verif/lib/fx"
	"github.com/atlassian/gostatsd/internal/verif/vsched"
	"github.com/atlassian/gostatsd/internal/verif/vtime"
	"github.com/atlassian/gostatsd/pkg/stats"
	"github.com/atlassian/gostatsd/pkg/transport"
)

type emitStatser struct {
	stats.NullStatser
	notify chan time.Duration
}

func (s *emitStatser) RegisterFlush() (<-chan time.Duration, func()) { return s.notify, func() {} }

func emitBody(c cfg, r *run) func(*vsched.Exec) {
	return func(x *vsched.Exec) {
		*r = run{c: c, returned: make([]int, 2), obj: new(int), delays: map[string]time.Duration{dpName(0, 0, 0): 100 * time.Millisecond, dpName(0, 1, 0): 300 * time.Millisecond}}
		ctx, mock := fx.NewClock(context.Background())
		r.mock = mock
		w := vsched.EnvGet("clock").(clock.Clock)
		clock.VerifDefault = w
		backoff.VerifNow = func() time.Time { return w.Now() }
		pool := transport.NewTransportPool(fx.Quiet(), viper.New())
		hc, _ := pool.Get("default")
		hc.Client.Transport = upstream{r}
		hc.Client.Timeout = 0
		h, err := forwarderFromConfig(pool, nil, map[string]any{"consolidator-slots": 1, "max-requests": 1, "concurrent-merge": 1, "compress": false, "max-request-elapsed-time": c.Elapsed, "flush-interval": time.Second})
		if err != nil {
			panic(err)
		}
		r.h = h
		st := &emitStatser{notify: make(chan time.Duration)}
		vsched.GoNamed("fwd.Run", func() { h.Run(ctx) })
		vsched.GoNamed("fwd.RunMetrics", func() { h.RunMetricsContext(stats.NewContext(ctx, st)) })
		vsched.Quiesce("started")
		// time passes only when nothing else can move, so whatever is to race with the completion of a post has to
		// start in the same breath as the clock step that lets the upstream answer
		settle := func(alongside func()) {
			for step := 0; step < 8 && inflightNow(h); step++ {
				vsched.ClockOp(true, "advance-next")
				mock.AddNext()
				if alongside != nil {
					alongside()
					alongside = nil
				}
				vsched.Quiesce("after-advance")
			}
		}
		for b := 0; b < 2; b++ {
			mm := gostatsd.NewMetricMap(false)
			mm.Receive(&gostatsd.Metric{Name: dpName(0, b, 0), Type: gostatsd.COUNTER, Value: 1, Rate: 1, Timestamp: 5})
			h.DispatchMetricMap(ctx, mm)
			r.returned[b] = b + 1
			vsched.Access(r.obj, true, "tick")
			vtime.Advance(mock, time.Second-mock.Now().Sub(fx.Epoch)%time.Second)
			r.ticksDone = b + 1
			vsched.Quiesce("after-tick")
			if b == 1 {
				// the statser announces a flush while the second post completes
				settle(func() { vsched.GoNamed("statser-flush", func() { vsched.Send(st.notify, time.Second) }) })
			} else {
				settle(nil)
			}
			r.checkDelivered(b + 1)
		}
		// nothing is in flight any more; whatever a posting goroutine may still have scheduled (a retry timer of a body
		// it wrongly thinks undelivered) gets its chance: two more seconds pass, timer by timer
		for step := 0; step < 6 && mock.Now().Sub(fx.Epoch) < 6*time.Second; step++ {
			vsched.ClockOp(true, "advance-next")
			mock.AddNext()
			vsched.Quiesce("after-advance")
		}
	}
}
