// C15: the forwarder delivers every batch exactly once or reports it dropped.
package main

import (
	"bytes"
	"context"
	"errors"
	"fmt"
	"io"
	"net/http"
	"os"
	"sort"
	"strings"
	"time"

	"github.com/cenkalti/backoff"
	"github.com/pierrec/lz4/v4"
	"github.com/spf13/viper"
	"github.com/tilinna/clock"
	"google.golang.org/protobuf/proto"

	"github.com/atlassian/gostatsd"
	"github.com/atlassian/gostatsd/internal/flush"
	"github.com/atlassian/gostatsd/internal/verif/lib/fx"
	"github.com/atlassian/gostatsd/internal/verif/vrt"
	"github.com/atlassian/gostatsd/internal/verif/vsched"
	"github.com/atlassian/gostatsd/internal/verif/vtime"
	"github.com/atlassian/gostatsd/pb"
	"github.com/atlassian/gostatsd/pkg/statsd"
	"github.com/atlassian/gostatsd/pkg/transport"
)

type cfg struct {
	D          int // dispatcher threads
	Batches    int // batches per dispatcher
	Slots      int
	Merge      int
	MaxReq     int
	Elapsed    time.Duration // -1 = retries disabled
	DynHdr     bool
	Shutdown   bool // one batch, then the forwarder's context ends: the last flush must be posted before Run returns (shutdown.go)
	Emit       bool // the forwarder's metrics goroutine emits (and resets its gauges) at any point of two flushes whose posts take different times (emit.go)
	Event      bool // an event is dispatched too, and its dispatcher then waits for events (the shutdown sequence)
	BrokenBody bool // upstream outcome 1 is "202 Accepted, but the response body cannot be read to its end" instead of a 503
	CustomHdr  bool // a static custom header named like the first dynamic header (the dynamic one is then ignored, the others stay)
	Dyn2       bool // two dynamic-header names (region, service); series with both, with one of them twice, with one, with none
	Failures   int  // failure budget of the upstream
	BadUTF8    bool // dispatcher 0 sends a tag with invalid UTF-8
	Ticks      int
	Compress   bool // compressed bodies
	PerBatch   int  // counters per dispatched batch (default 1), each with its own region tag when DynHdr
}

func (c cfg) per() int {
	if c.PerBatch < 1 {
		return 1
	}
	return c.PerBatch
}

func (c cfg) String() string {
	return fmt.Sprintf("D%d-B%d-s%d-m%d-r%d-el%v-dyn%v%v-f%d-bad%v-t%d-z%v-p%d", c.D, c.Batches, c.Slots, c.Merge, c.MaxReq, c.Elapsed, c.DynHdr, c.Dyn2, c.Failures, c.BadUTF8, c.Ticks, c.Compress, c.PerBatch) + map[bool]string{true: "-event"}[c.Event] + map[bool]string{true: "-brokenbody"}[c.BrokenBody] + map[bool]string{true: "-customhdr"}[c.CustomHdr] + map[bool]string{true: "-emit"}[c.Emit] + map[bool]string{true: "-shutdown"}[c.Shutdown]
}

type attempt struct {
	body    string // canonical content
	names   []string
	region  string
	service string
	outcome int // 0 ok, 1 5xx, 2 transport error
	at      time.Time
}

type run struct {
	c           cfg
	h           *statsd.HttpForwarderHandlerV2
	mock        *clock.Mock
	attempts    []attempt
	evPosts     int
	failsLeft   int
	returned    []int // per datapoint id: 0 not yet, else the tick count at which its dispatch returned
	ticksDone   int
	viol        string
	violKey     string
	obj         *int
	runReturned bool
	delays      map[string]time.Duration // Emit configuration: how long the upstream takes to answer a body with that datapoint (no environment choice)
}

func (r *run) fail(k, m string) {
	if r.viol == "" {
		r.violKey, r.viol = k, m
	}
}

type upstream struct{ r *run }

func (u upstream) RoundTrip(req *http.Request) (*http.Response, error) {
	if err := req.Context().Err(); err != nil {
		return nil, err // a real transport does not send a request whose context is already done
	}
	if strings.HasSuffix(req.URL.Path, "/event") {
		io.ReadAll(req.Body)
		req.Body.Close()
		vsched.Access(u.r.obj, true, "upstream-event")
		u.r.evPosts++
		return &http.Response{StatusCode: 202, Status: "202", Header: http.Header{}, Body: io.NopCloser(strings.NewReader("")), Request: req}, nil
	}
	raw, _ := io.ReadAll(req.Body)
	req.Body.Close()
	if req.Header.Get("Content-Encoding") == "lz4" {
		dec, err := io.ReadAll(lz4.NewReader(bytes.NewReader(raw)))
		if err != nil {
			u.r.fail("undecodable-body", "upstream received a body that does not decompress: "+err.Error())
		}
		raw = dec
	}
	var msg pb.RawMessageV2
	if err := proto.Unmarshal(raw, &msg); err != nil {
		u.r.fail("undecodable-body", "upstream received a body that does not decode: "+err.Error())
	}
	var names []string
	var parts []string
	for n, tm := range msg.Counters {
		for k, c := range tm.TagMap {
			names = append(names, n)
			parts = append(parts, fmt.Sprintf("%s|%s|%d|%v", n, k, c.Value, c.Tags))
		}
	}
	sort.Strings(parts)
	sort.Strings(names)
	vsched.Access(u.r.obj, true, "upstream-attempt")
	o := 0
	if u.r.delays != nil {
		for _, n := range names {
			if d := u.r.delays[n]; d > 0 {
				// a slow response: the answer comes when the (mock) clock has moved on
				t := vsched.EnvGet("clock").(clock.Clock).NewTimer(d)
				vsched.Recv(t.C)
			}
		}
	} else if u.r.failsLeft > 0 && len(parts) > 0 {
		o = vsched.Choose(3, "upstream")
		if o != 0 {
			u.r.failsLeft--
		}
	}
	u.r.attempts = append(u.r.attempts, attempt{strings.Join(parts, ";"), names, req.Header.Get("region"), req.Header.Get("service"), o, u.r.mock.Now()})
	switch o {
	case 1:
		if u.r.c.BrokenBody {
			return &http.Response{StatusCode: 202, Status: "202", Header: http.Header{}, Body: io.NopCloser(brokenReader{}), Request: req}, nil
		}
		// a refusal is any status outside 2xx: a 503, or - every other time - a 304 as a cache or proxy in front of the
		// upstream may produce (Go's client hands a 3xx without Location back as it is)
		st := []int{503, 304}[len(u.r.attempts)%2]
		return &http.Response{StatusCode: st, Status: fmt.Sprint(st), Header: http.Header{}, Body: io.NopCloser(strings.NewReader("busy")), Request: req}, nil
	case 2:
		return nil, errors.New("connection reset")
	}
	return &http.Response{StatusCode: 202, Status: "202", Header: http.Header{}, Body: io.NopCloser(strings.NewReader("")), Request: req}, nil
}

// brokenReader: the upstream accepted the request, the connection broke while its (irrelevant) answer was read
type brokenReader struct{}

func (brokenReader) Read([]byte) (int, error) {
	return 0, errors.New("connection reset while reading the response")
}

func dpName(d, b, k int) string { return fmt.Sprintf("d%db%dk%d", d, b, k) }

func body(c cfg, r *run) func(*vsched.Exec) {
	if c.Emit {
		return emitBody(c, r)
	}
	if c.Shutdown {
		return shutdownBody(c, r)
	}
	return func(x *vsched.Exec) {
		*r = run{c: c, failsLeft: c.Failures, returned: make([]int, c.D*c.Batches*c.per()), obj: new(int)}
		ctx, mock := fx.NewClock(context.Background())
		r.mock = mock
		w := vsched.EnvGet("clock").(clock.Clock)
		clock.VerifDefault = w
		backoff.VerifNow = func() time.Time { return w.Now() }
		v := viper.New()
		pool := transport.NewTransportPool(fx.Quiet(), v)
		hc, _ := pool.Get("default")
		hc.Client.Transport = upstream{r}
		hc.Client.Timeout = 0
		var dyn []string
		if c.DynHdr {
			dyn = []string{"region"}
		}
		if c.Dyn2 {
			dyn = []string{"region", "service"}
		}
		custom := map[string]string{}
		if c.CustomHdr {
			custom["region"] = "static"
		}
		h, err := forwarderFromConfig(pool, nil, map[string]any{"consolidator-slots": c.Slots, "max-requests": c.MaxReq, "concurrent-merge": c.Merge, "compress": c.Compress, "compression-type": "lz4", "compression-level": 0, "max-request-elapsed-time": c.Elapsed, "flush-interval": time.Second, "dynamic-headers": dyn, "custom-headers": custom})
		if err != nil {
			panic(err)
		}
		r.h = h
		vsched.GoNamed("fwd.Run", func() { h.Run(ctx) })
		vsched.Quiesce("started") // start-up no-op post done, consolidator ticker armed at t=0
		if c.Event {
			vsched.GoNamed("event", func() {
				h.DispatchEvent(ctx, &gostatsd.Event{Title: "deploy", Text: "x"})
				h.WaitForEvents() // what the server does at shutdown, right after its last event
				vsched.Access(r.obj, false, "wait-for-events-returned")
				if r.evPosts == 0 {
					r.fail("wait-for-events-early", "WaitForEvents returned although the event accepted just before had not been handed upstream yet")
				}
			})
		}
		for d := 0; d < c.D; d++ {
			d := d
			vsched.GoNamed(fmt.Sprintf("dispatcher%d", d), func() {
				for b := 0; b < c.Batches; b++ {
					mm := gostatsd.NewMetricMap(false)
					for k := 0; k < c.per(); k++ {
						tags := gostatsd.Tags{}
						if c.DynHdr {
							tags = append(tags, []string{"region:us", "region:eu", "other:x"}[(d+b+k)%3])
						}
						if c.Dyn2 {
							tags = append(tags, dyn2Tags[(d+b+k)%len(dyn2Tags)]...)
						}
						if c.BadUTF8 && d == 0 {
							tags = append(tags, "bad:\xff\xfe")
						}
						mm.Receive(&gostatsd.Metric{Name: dpName(d, b, k), Type: gostatsd.COUNTER, Value: float64(1 + d*10 + b), Rate: 1, Tags: tags, Timestamp: 5})
					}
					h.DispatchMetricMap(ctx, mm)
					vsched.Access(r.obj, true, "dispatch-returned")
					for k := 0; k < c.per(); k++ {
						r.returned[(d*c.Batches+b)*c.per()+k] = r.ticksDone + 1
					}
				}
			})
		}
		// first tick races with the dispatchers
		vsched.Access(r.obj, true, "tick")
		r.ticksDone = 1
		vtime.Advance(mock, time.Second)
		vsched.Quiesce("after-tick-1")
		r.checkDelivered(1)
		// afterwards time passes only when nothing else can happen: retry timers and further ticks
		for step := 0; step < 12; step++ {
			cn := h.VerifCounters()
			inflight := cn[1] != cn[2]+cn[4]
			need := 0
			for _, t := range r.returned {
				if t > need {
					need = t
				}
			}
			if !inflight && r.ticksDone >= c.Ticks && r.ticksDone >= need {
				break
			}
			before := mock.Now()
			vsched.ClockOp(true, "advance-next")
			now, _ := mock.AddNext()
			if now.Sub(fx.Epoch)/time.Second > before.Sub(fx.Epoch)/time.Second {
				r.ticksDone = int(now.Sub(fx.Epoch) / time.Second)
			}
			vsched.Quiesce("after-advance")
			if !inflightNow(h) {
				r.checkDelivered(r.ticksDone)
			}
		}
	}
}

func inflightNow(h *statsd.HttpForwarderHandlerV2) bool {
	cn := h.VerifCounters()
	return cn[1] != cn[2]+cn[4]
}

// checkDelivered: every datapoint whose dispatch returned before tick t was advanced is, at this
// quiescent point with nothing in flight, in exactly one distinct body (or its body was dropped).
func (r *run) checkDelivered(t int) {
	if inflightNow(r.h) {
		return
	}
	for id, ret := range r.returned {
		if ret == 0 || ret > t {
			continue
		}
		name := dpName(id/r.c.per()/r.c.Batches, id/r.c.per()%r.c.Batches, id%r.c.per())
		bodies := map[string]bool{}
		for _, a := range r.attempts {
			for _, n := range a.names {
				if n == name {
					bodies[a.body] = true
				}
			}
		}
		if len(bodies) == 0 {
			if r.c.BadUTF8 {
				r.fail("lost-with-invalid-utf8 "+fmt.Sprint(id/r.c.per()/r.c.Batches == 0), fmt.Sprintf("datapoint %s (dispatch returned before tick %d) was never sent: a tag with invalid UTF-8 in the same flush made the whole merged batch unserialisable", name, t))
			} else {
				r.fail("datapoint-not-sent", fmt.Sprintf("datapoint %s: its dispatch returned before tick %d but no request body contains it after that flush completed", name, t))
			}
		}
		if len(bodies) > 1 {
			r.fail("datapoint-in-two-bodies", fmt.Sprintf("datapoint %s is contained in %d distinct request bodies", name, len(bodies)))
		}
	}
}

func check(c cfg, r *run, outcomes map[string]struct{}) func(*vsched.Exec, vsched.Outcome) (string, string) {
	return func(x *vsched.Exec, o vsched.Outcome) (string, string) {
		if o.Kind != "ok" {
			return o.Kind, o.Kind + ": " + o.Detail
		}
		if r.viol != "" {
			return r.violKey, r.viol
		}
		// per body: attempts alternate fail.. then at most one success, nothing after a success
		type bs struct {
			fails, ok   int
			first, last time.Time
			lastOutcome int
		}
		per := map[string]*bs{}
		var order []string
		for _, a := range r.attempts {
			if a.body == "" {
				continue // empty map (start-up no-op)
			}
			b := per[a.body]
			if b == nil {
				b = &bs{first: a.at}
				per[a.body] = b
				order = append(order, a.body)
			}
			if b.ok > 0 {
				return "resent-after-success", fmt.Sprintf("body %q was sent again after a successful attempt", a.body)
			}
			if a.outcome == 0 || (a.outcome == 1 && c.BrokenBody) {
				b.ok++ // a 2xx status is a delivery, whatever happens to the response body
			} else {
				b.fails++
			}
			b.last, b.lastOutcome = a.at, a.outcome
		}
		cn := r.h.VerifCounters() // invalid, created, sent, retried, dropped
		var dropped, sent, retried uint64
		for body, b := range per {
			if b.ok == 0 {
				dropped++
				// abandoned: only legitimate if retries are disabled or the window is exhausted
				if c.Elapsed > 0 && b.last.Sub(b.first) <= c.Elapsed-1500*time.Millisecond {
					return "abandoned-early", fmt.Sprintf("body %q was abandoned %v after its first attempt although the retry window is %v", body, b.last.Sub(b.first), c.Elapsed)
				}
				if b.fails > 0 {
					retried += uint64(b.fails - 1)
				}
			} else {
				sent++
				retried += uint64(b.fails)
			}
			if c.Elapsed < 0 && b.fails+b.ok > 1 {
				return "retry-although-disabled", fmt.Sprintf("body %q attempted %d times with retries disabled", body, b.fails+b.ok)
			}
		}
		// the start-up no-op is one created+sent message
		if cn[4] != dropped {
			return "dropped-counter", fmt.Sprintf("%d bodies were abandoned but dropped=%d", dropped, cn[4])
		}
		if cn[1] != cn[2]+cn[4] {
			return "counters-dont-add-up", fmt.Sprintf("created=%d sent=%d dropped=%d at quiescence", cn[1], cn[2], cn[4])
		}
		if cn[2] != sent+1+uint64(r.evPosts) {
			return "sent-counter", fmt.Sprintf("%d bodies succeeded (+1 start-up no-op, +%d event posts) but sent=%d", sent, r.evPosts, cn[2])
		}
		if cn[3] != retried {
			return "retried-counter", fmt.Sprintf("%d retries observed but retried=%d", retried, cn[3])
		}
		if !c.BadUTF8 && cn[0] != 0 {
			return "invalid-counter", fmt.Sprintf("invalid=%d", cn[0])
		}
		rf, rc, mf, mc := r.h.VerifSemaphores()
		if (rf != rc || mf != mc) && !c.Shutdown { // (Run takes every token for good when it shuts down)
			return "semaphore-leak", fmt.Sprintf("at quiescence request semaphore %d/%d, merge semaphore %d/%d", rf, rc, mf, mc)
		}
		// dynamic headers: every series in a request carrying its region
		if c.DynHdr {
			for _, a := range r.attempts {
				for _, n := range a.names {
					var d, b, k int
					fmt.Sscanf(n, "d%db%dk%d", &d, &b, &k)
					want := []string{"us", "eu", ""}[(d+b+k)%3]
					if a.region != want {
						return "wrong-dynamic-header", fmt.Sprintf("series %s travelled in a request with header region=%q, want %q", n, a.region, want)
					}
				}
			}
		}
		if c.Dyn2 {
			for _, a := range r.attempts {
				for _, n := range a.names {
					var d, b, k int
					fmt.Sscanf(n, "d%db%dk%d", &d, &b, &k)
					for hn, got := range map[string]string{"region": a.region, "service": a.service} {
						if c.CustomHdr && hn == "region" {
							if got != "static" {
								return "wrong-dynamic-header", fmt.Sprintf("series %s travelled with header region=%q although region is configured as the static header \"static\"", n, got)
							}
							continue
						}
						var vals []string
						for _, t := range dyn2Tags[(d+b+k)%len(dyn2Tags)] {
							if strings.HasPrefix(t, hn+":") {
								vals = append(vals, strings.TrimPrefix(t, hn+":"))
							}
						}
						ok := len(vals) == 0 && got == ""
						for _, v := range vals {
							ok = ok || got == v
						}
						if !ok {
							return "wrong-dynamic-header", fmt.Sprintf("series %s (tags %v) travelled in a request with header %s=%q; its %s tag values are %v", n, dyn2Tags[(d+b+k)%len(dyn2Tags)], hn, got, hn, vals)
						}
					}
				}
			}
		}
		// everything dispatched must be in exactly one body by the end
		r.viol = ""
		r.checkDelivered(r.ticksDone)
		if r.viol != "" {
			return r.violKey, r.viol
		}
		var sig strings.Builder
		for _, a := range r.attempts {
			fmt.Fprintf(&sig, "%s/%d;", a.body, a.outcome)
		}
		if len(order) > 1 || r.failsLeft < c.Failures {
			outcomes[c.String()+sig.String()] = struct{}{}
		}
		if dropped > 0 {
			x.Note("body-dropped")
		}
		if retried > 0 {
			x.Note("retried")
		}
		if len(order) > 1 {
			x.Note("two-or-more-bodies")
		}
		return "", ""
	}
}

var dyn2Tags = [][]string{{"region:a", "region:b", "service:x"}, {"service:urn:team:y", "other:x"}, {"region:a", "service:x"}, {"other:x"}}

// forwarderFromConfig builds the forwarder the way the server does: from the http-transport configuration keys.
func forwarderFromConfig(pool *transport.TransportPool, fc flush.Coordinator, kv map[string]any) (*statsd.HttpForwarderHandlerV2, error) {
	v := viper.New()
	kv["api-endpoint"] = "http://up.invalid"
	v.Set("http-transport", kv)
	return statsd.NewHttpForwarderHandlerV2FromViper(fx.Quiet(), v, pool, fc)
}

func configs() []cfg {
	if os.Getenv("C15_ONLY") == "emit" {
		return []cfg{{D: 1, Batches: 2, Slots: 1, Merge: 1, MaxReq: 1, Elapsed: 3 * time.Second, Ticks: 2, Emit: true}}
	}
	cs := []cfg{
		{D: 2, Batches: 1, Slots: 1, Merge: 1, MaxReq: 1, Elapsed: 3 * time.Second, Failures: 1, Ticks: 2},
		{D: 2, Batches: 1, Slots: 2, Merge: 2, MaxReq: 2, Elapsed: -1, Failures: 1, Ticks: 2},
		{D: 1, Batches: 2, Slots: 1, Merge: 1, MaxReq: 1, Elapsed: 3 * time.Second, Failures: 3, Ticks: 1},
		{D: 2, Batches: 1, Slots: 1, Merge: 1, MaxReq: 1, Elapsed: 3 * time.Second, BadUTF8: true, Failures: 0, Ticks: 2},
		{D: 1, Batches: 1, PerBatch: 4, Slots: 1, Merge: 1, MaxReq: 1, Elapsed: 3 * time.Second, Dyn2: true, Failures: 0, Ticks: 1},
		{D: 0, Batches: 0, Slots: 1, Merge: 1, MaxReq: 1, Elapsed: 3 * time.Second, Failures: 0, Ticks: 1, Event: true},
		{D: 1, Batches: 1, PerBatch: 4, Slots: 1, Merge: 1, MaxReq: 2, Elapsed: 3 * time.Second, Dyn2: true, CustomHdr: true, Failures: 0, Ticks: 1},
		{D: 1, Batches: 2, Slots: 1, Merge: 1, MaxReq: 1, Elapsed: 3 * time.Second, Failures: 2, Ticks: 1, BrokenBody: true},
		{D: 1, Batches: 2, Slots: 1, Merge: 1, MaxReq: 1, Elapsed: 3 * time.Second, Ticks: 2, Emit: true},
		{D: 1, Batches: 1, Slots: 1, Merge: 1, MaxReq: 1, Elapsed: 3 * time.Second, Shutdown: true},
		{D: 1, Batches: 1, Slots: 2, Merge: 2, MaxReq: 2, Elapsed: 3 * time.Second, Shutdown: true},
		{D: 1, Batches: 1, Slots: 1, Merge: 1, MaxReq: 1, Elapsed: 3 * time.Second, Failures: 1, Shutdown: true},
		// two compressed bodies of one flush in flight together, one of them retried
		{D: 1, Batches: 1, PerBatch: 2, Slots: 1, Merge: 1, MaxReq: 2, Elapsed: 3 * time.Second, DynHdr: true, Failures: 1, Ticks: 1, Compress: true},
	}
	if vrt.Thorough() {
		cs = append(cs,
			cfg{D: 1, Batches: 2, Slots: 1, Merge: 1, MaxReq: 1, Elapsed: 3 * time.Second, Failures: 5, Ticks: 1},
			cfg{D: 2, Batches: 1, Slots: 2, Merge: 1, MaxReq: 2, Elapsed: 3 * time.Second, DynHdr: true, Failures: 0, Ticks: 2},
			cfg{D: 1, Batches: 1, PerBatch: 4, Slots: 1, Merge: 1, MaxReq: 2, Elapsed: 3 * time.Second, Dyn2: true, Failures: 0, Ticks: 1},
			cfg{D: 1, Batches: 1, Slots: 1, Merge: 1, MaxReq: 1, Elapsed: 3 * time.Second, Failures: 0, Ticks: 1, Event: true},
			cfg{D: 2, Batches: 2, Slots: 2, Merge: 1, MaxReq: 2, Elapsed: 3 * time.Second, Failures: 2, Ticks: 3},
			cfg{D: 3, Batches: 1, Slots: 2, Merge: 2, MaxReq: 1, Elapsed: -1, Failures: 1, Ticks: 2},
			cfg{D: 2, Batches: 2, Slots: 1, Merge: 2, MaxReq: 2, Elapsed: 3 * time.Second, DynHdr: true, Failures: 1, Ticks: 2})
	}
	return cs
}

type replay struct {
	Cfg     cfg
	Choices []vsched.TransKey
}

func main() {
	res := vrt.Init()
	if *vrt.ReplayPath != "" {
		var rp replay
		var sp struct{ SplitByTags []int }
		vrt.LoadReplay(&sp)
		if sp.SplitByTags != nil {
			checkSplitByTags(res)
			for _, v := range res.Violations {
				fmt.Println(v.Key, "\n ", v.Msg)
			}
			if len(res.Violations) > 0 {
				fmt.Printf("VIOLATION property=C15 replay=%s\n", *vrt.ReplayPath)
				os.Exit(1)
			}
			return
		}
		vrt.LoadReplay(&rp)
		r := &run{}
		o, key, msg, trace := vsched.Replay(vsched.Config{Body: body(rp.Cfg, r), Check: check(rp.Cfg, r, map[string]struct{}{})}, rp.Choices)
		fmt.Println(strings.Join(trace, "\n"))
		fmt.Printf("outcome=%s key=%s\n%s\n", o.Kind, key, msg)
		if msg != "" {
			fmt.Printf("VIOLATION property=C15 replay=%s\n", *vrt.ReplayPath)
			os.Exit(1)
		}
		return
	}
	outcomes := map[string]struct{}{}
	var info []string
	for i, c := range configs() {
		if vrt.Expired() {
			res.Exhaustive = false
			break
		}
		r := &run{}
		st := vsched.Explore(vsched.Config{Name: c.String(), Deadline: vrt.Deadline(), Shard: *vrt.Shard, NShards: *vrt.NShards, SplitLvl: 3,
			StatesOut: fmt.Sprintf("states_%d_%d.bin", i, *vrt.Shard), Body: body(c, r), Check: check(c, r, outcomes)})
		res.Evaluations += st.Executions
		res.Traces += st.Executions
		res.Transitions += st.Transitions
		res.States += st.States
		res.Counters["state_keys_seen_beyond_the_kept_set"] += st.StatesBeyondCap
		res.Counters["sleep_blocked"] += st.SleepBlocked
		for k, v := range st.Notes {
			res.Counters["note."+k] += v
		}
		for k, v := range st.Outcomes {
			res.Counters["outcome."+k] += v
		}
		if !st.Exhaustive {
			res.Exhaustive = false
		}
		info = append(info, fmt.Sprintf("%s: execs=%d exhaustive=%v", c, st.Executions, st.Exhaustive))
		for _, v := range st.Violations {
			res.Violate(v.Key+" "+c.String(), v.Msg+"\ntrace:\n"+strings.Join(v.Trace, "\n"), replay{c, v.Choices})
		}
		if i == 0 {
			for _, t := range st.SampleTraces {
				res.Sample(map[string]any{"config": c.String(), "schedule": t})
			}
		}
	}
	res.Info["configs"] = info
	res.SetDistinctKeys(outcomes)
	checkSplitByTags(res)
	res.Finish()
}
