// C10: static tags, tag de-duplication and filters follow the documented rules.
package main

import (
	"io"

	"github.com/sirupsen/logrus"
	"context"
	"fmt"
	"github.com/spf13/viper"
	"os"
	"regexp"
	"sort"
	"strings"

	"github.com/atlassian/gostatsd"
	"github.com/atlassian/gostatsd/internal/verif/lib/fx"
	"github.com/atlassian/gostatsd/internal/verif/ref/mapref"
	"github.com/atlassian/gostatsd/internal/verif/vrt"
	"github.com/atlassian/gostatsd/pkg/statsd"
)

var res *vrt.Result
var nontrivial int64 // cases are distinct by construction (each (filters, static, map) combination is enumerated once)

// ---- reference pattern semantics (FILTERING.md)
func refMatch(pat, s string) bool {
	inv := strings.HasPrefix(pat, "!")
	if inv {
		pat = pat[1:]
	}
	var m bool
	switch {
	case strings.HasPrefix(pat, "regex:"):
		m = regexp.MustCompile(pat[6:]).FindStringIndex(s) != nil
	case strings.HasSuffix(pat, "*"):
		m = strings.HasPrefix(s, pat[:len(pat)-1])
	default:
		m = s == pat
	}
	return m != inv
}

func anyMatch(pats []string, s string) bool {
	for _, p := range pats {
		if refMatch(p, s) {
			return true
		}
	}
	return false
}

type fspec struct {
	Match, Exclude, MatchTags, DropTags []string
	DropMetric, DropHost                bool
}

func (f fspec) real() statsd.Filter {
	conv := func(ps []string) gostatsd.StringMatchList {
		var l gostatsd.StringMatchList
		for _, p := range ps {
			l = append(l, gostatsd.NewStringMatch(p))
		}
		return l
	}
	return statsd.Filter{MatchMetrics: conv(f.Match), ExcludeMetrics: conv(f.Exclude), MatchTags: conv(f.MatchTags), DropTags: conv(f.DropTags), DropMetric: f.DropMetric, DropHost: f.DropHost}
}

func satisfied(f fspec, name string, tags []string) bool {
	if len(f.Match) > 0 && !anyMatch(f.Match, name) {
		return false
	}
	if anyMatch(f.Exclude, name) {
		return false
	}
	if len(f.MatchTags) > 0 {
		ok := false
		for _, t := range tags {
			if anyMatch(f.MatchTags, t) {
				ok = true
			}
		}
		if !ok {
			return false
		}
	}
	return true
}

// refApply returns (dropped, newTags(set), newSource, anySatisfied)
func refApply(filters []fspec, static []string, name string, tags []string, source string) (bool, []string, string, bool) {
	removed := map[string]bool{}
	anySat := false
	for _, f := range filters {
		if !satisfied(f, name, tags) {
			continue
		}
		anySat = true
		if f.DropMetric {
			return true, nil, "", true
		}
	}
	for _, f := range filters {
		if !satisfied(f, name, tags) {
			continue
		}
		for _, t := range tags {
			if anyMatch(f.DropTags, t) {
				removed[t] = true
			}
		}
		if f.DropHost {
			source = ""
		}
	}
	set := map[string]bool{}
	for _, t := range tags {
		if !removed[t] {
			set[t] = true
		}
	}
	for _, s := range static {
		if !removed[s] {
			set[s] = true
		}
	}
	var out []string
	for t := range set {
		out = append(out, t)
	}
	sort.Strings(out)
	return false, out, source, anySat
}

type sdesc struct {
	Type   string
	Name   string
	Tags   []string
	Source string
	Val    float64
	TS     int64
	Rate   float64 `json:",omitempty"` // 0 means 1
}

func (s sdesc) rate() float64 {
	if s.Rate == 0 {
		return 1
	}
	return s.Rate
}

func toDP(s sdesc) mapref.DP {
	return mapref.DP{Type: s.Type, Name: s.Name, Tags: s.Tags, Source: s.Source, Value: s.Val, Str: fmt.Sprint("m", s.Val), Rate: s.rate(), TS: s.TS}
}

func build(ss []sdesc) *gostatsd.MetricMap {
	mm := gostatsd.NewMetricMap(false)
	for _, s := range ss {
		ty := map[string]gostatsd.MetricType{"c": gostatsd.COUNTER, "g": gostatsd.GAUGE, "ms": gostatsd.TIMER, "s": gostatsd.SET}[s.Type]
		mm.Receive(&gostatsd.Metric{Name: s.Name, Type: ty, Value: s.Val, StringValue: fmt.Sprint("m", s.Val), Rate: s.rate(), Tags: append(gostatsd.Tags{}, s.Tags...), Source: gostatsd.Source(s.Source), Timestamp: gostatsd.Nanotime(s.TS)})
	}
	return mm
}

type tcase struct {
	Filters []fspec
	Static  []string
	Series  []sdesc
}

// newStage builds the tag stage the way the server does: from the configuration keys (filters,
// filter.<name>.match-metrics / exclude-metrics / match-tags / drop-tags / drop-metric / drop-host).
func newStage(filters []fspec, static []string, rec *fx.Recorder) *statsd.TagHandler {
	v := viper.New()
	// "ghost" is listed but has no [filter.ghost] block: a leftover name the server warns about and skips
	names := []string{"ghost"}
	fm := map[string]any{}
	for i, f := range filters {
		n := fmt.Sprintf("f%d", i)
		names = append(names, n)
		m := map[string]any{"drop-metric": f.DropMetric, "drop-host": f.DropHost}
		if f.Match != nil {
			m["match-metrics"] = f.Match
		}
		if f.Exclude != nil {
			m["exclude-metrics"] = f.Exclude
		}
		if f.MatchTags != nil {
			m["match-tags"] = f.MatchTags
		}
		if f.DropTags != nil {
			m["drop-tags"] = f.DropTags
		}
		fm[n] = m
	}
	v.Set("filters", names)
	v.Set("filter", fm)
	return statsd.NewTagHandlerFromViper(v, rec, append(gostatsd.Tags{}, static...))
}

func check(c tcase) {
	rec := &fx.Recorder{}
	checkWith(newStage(c.Filters, c.Static, rec), rec, c)
}

func checkWith(th *statsd.TagHandler, rec *fx.Recorder, c tcase) {
	res.Evaluations++
	rec.Reset()
	th.DispatchMetricMap(context.Background(), build(c.Series))
	want := mapref.Agg{}
	interesting := false
	// input series are distinct by construction of the map (Receive merges equal keys), fold them first
	in := mapref.Agg{}
	for _, s := range c.Series {
		in.Add(toDP(s))
	}
	for _, s := range in {
		dropped, nt, ns, sat := refApply(c.Filters, c.Static, s.Name, s.Tags, s.Source)
		if sat {
			interesting = true
		}
		if dropped {
			continue
		}
		x := *s
		x.Tags, x.Source = nt, ns
		if want[mapref.Key(x.Type, x.Name, x.Tags, x.Source)] != nil {
			interesting = true
		}
		want.AddSeries(&x)
	}
	bad := func(kind, msg string) {
		res.Violate(kind, fmt.Sprintf("%s: filters=%+v static=%v series=%+v: %s", kind, c.Filters, c.Static, c.Series, msg), c)
	}
	if len(rec.Maps) > 1 {
		bad("multi-dispatch", "more than one map dispatched")
		return
	}
	var snap []fx.Series
	if len(rec.Maps) == 1 {
		snap = fx.Snapshot(rec.Maps[0])
	}
	for _, s := range snap {
		seen := map[string]bool{}
		for _, t := range s.Tags {
			if seen[t] {
				bad("duplicate-tag", fmt.Sprintf("series %s leaves with duplicate tag %q: %v", s.Name, t, s.Tags))
			}
			seen[t] = true
		}
	}
	got, err := mapref.FromSnapshot(snap)
	if err != nil {
		bad("coinciding-series-not-merged", err.Error())
		return
	}
	if d := mapref.Diff(got, want, "any", true); d != "" {
		bad("tagstage "+strings.SplitN(d, " ", 2)[0], d)
	}
	if interesting {
		nontrivial++
	}
}

func checkEvent(static []string, tags []string) {
	res.Evaluations++
	rec := &fx.Recorder{}
	th := statsd.NewTagHandler(rec, append(gostatsd.Tags{}, static...), nil)
	th.DispatchEvent(context.Background(), &gostatsd.Event{Title: "t", Tags: append(gostatsd.Tags{}, tags...)})
	set := map[string]bool{}
	for _, t := range append(append([]string{}, tags...), static...) {
		set[t] = true
	}
	if len(rec.Events) != 1 {
		res.Violate("event-count", fmt.Sprintf("static=%v tags=%v: %d events forwarded", static, tags, len(rec.Events)), nil)
		return
	}
	got := map[string]int{}
	for _, t := range rec.Events[0].Tags {
		got[t]++
	}
	for t := range set {
		if got[t] != 1 {
			res.Violate("event-tags", fmt.Sprintf("static=%v tags=%v: event leaves with tags %v", static, tags, rec.Events[0].Tags), nil)
		}
	}
	if len(got) != len(set) {
		res.Violate("event-tags", fmt.Sprintf("static=%v tags=%v: event leaves with tags %v", static, tags, rec.Events[0].Tags), nil)
	}
}

var pats = []string{"a", "a*", "!a", "!a*", "regex:^a", "!regex:b$", "k:*", "*"}
var statics = [][]string{nil, {"s"}, {"s", "a"}, {"a", "a"}}
var tagLists = [][]string{nil, {"a"}, {"ab"}, {"b"}, {"k:v"}, {"k:w"}, {"a", "k:v"}, {"a", "a"}, {"s", "b"}, {"k:v", "k:w", "ab"}}

func allFilters() []fspec {
	opt := [][]string{nil}
	for _, p := range pats {
		opt = append(opt, []string{p})
	}
	two := [][]string{{"a", "b"}, {"!a", "k:*"}}
	var out []fspec
	add := func(f fspec) {
		if len(f.DropTags) == 0 && !f.DropMetric && !f.DropHost {
			return
		}
		out = append(out, f)
	}
	for _, m := range opt {
		for _, e := range opt {
			for _, mt := range opt {
				for _, dt := range opt {
					for _, dm := range []bool{false, true} {
						for _, dh := range []bool{false, true} {
							if dm && (len(dt) > 0 || dh) {
								continue // drop-metric makes the other actions unobservable
							}
							add(fspec{m, e, mt, dt, dm, dh})
						}
					}
				}
			}
		}
	}
	for _, t := range two {
		add(fspec{t, nil, nil, []string{"k:*"}, false, false})
		add(fspec{nil, t, nil, nil, true, false})
		add(fspec{nil, nil, t, nil, false, true})
		add(fspec{nil, nil, nil, t, false, false})
	}
	return out
}

func seriesFamily() [][]sdesc {
	var fam [][]sdesc
	var core []sdesc
	for _, n := range []string{"a", "ab", "b"} {
		for ti, tl := range tagLists {
			for _, src := range []string{"", "h"} {
				s := sdesc{"c", n, tl, src, float64(1 + ti), int64(10 + ti), 0}
				fam = append(fam, []sdesc{s})
				if n != "b" && (ti == 0 || ti == 1 || ti == 4 || ti == 5 || ti == 6 || ti == 8) {
					core = append(core, s)
				}
			}
		}
	}
	for _, ty := range []string{"c", "g", "ms", "s"} {
		for i, x := range core {
			for j, y := range core {
				if i >= j || x.Name != y.Name {
					continue
				}
				if ty != "c" && (i+j)%3 != 0 {
					continue
				}
				x2, y2 := x, y
				x2.Type, y2.Type = ty, ty
				y2.TS = x2.TS + int64(j%2) // equal and different timestamps
				fam = append(fam, []sdesc{x2, y2})
				if (ty == "c" || ty == "ms") && (i+j)%2 == 0 { // client-side sampling on either of the two
					x3, y3 := x2, y2
					y3.Rate = 0.25
					fam = append(fam, []sdesc{x3, y3})
					x3.Rate, y3.Rate = 0.5, 0
					fam = append(fam, []sdesc{x3, y3})
				}
			}
		}
	}
	return fam
}

func main() {
	logrus.SetOutput(io.Discard)
	res = vrt.Init()
	if *vrt.ReplayPath != "" {
		var c tcase
		vrt.LoadReplay(&c)
		check(c)
		for _, v := range res.Violations {
			fmt.Println(v.Key, "\n ", v.Msg)
		}
		if len(res.Violations) > 0 {
			fmt.Printf("VIOLATION property=C10 replay=%s\n", *vrt.ReplayPath)
			os.Exit(1)
		}
		return
	}
	filters := allFilters()
	fam := seriesFamily()
	res.Info["filters"] = len(filters)
	res.Info["maps"] = len(fam)
	var i int64
	runLists := func(fl []fspec) {
		i++
		if !vrt.Mine(i) {
			return
		}
		for _, st := range statics {
			rec := &fx.Recorder{}
			th := newStage(fl, st, rec) // the stage keeps no state between batches
			for _, ss := range fam {
				checkWith(th, rec, tcase{fl, st, ss})
			}
		}
	}
	runLists(nil)
	for _, f := range filters {
		runLists([]fspec{f})
	}
	// pairs (triples in thorough) over a core of filters with distinct behaviours
	var coreF []fspec
	step := 197
	if vrt.Thorough() {
		step = 41
	}
	for k := 0; k < len(filters); k += step {
		coreF = append(coreF, filters[k])
	}
	res.Info["core_filters"] = len(coreF)
	for _, f := range coreF {
		for _, g := range coreF {
			runLists([]fspec{f, g})
		}
	}
	if vrt.Thorough() {
		var c3 []fspec
		for k := 0; k < len(coreF); k += 5 {
			c3 = append(c3, coreF[k])
		}
		for _, f := range c3 {
			for _, g := range c3 {
				for _, h := range c3 {
					runLists([]fspec{f, g, h})
				}
			}
		}
	}
	if *vrt.Shard == 0 {
		for _, st := range statics {
			for _, tl := range tagLists {
				checkEvent(st, tl)
			}
		}
	}
	res.Sample(tcase{[]fspec{{Match: []string{"a*"}, DropTags: []string{"k:*"}, DropHost: true}}, []string{"s", "a"}, []sdesc{{"c", "a", []string{"k:v"}, "h", 5, 14, 0}, {"c", "a", []string{"k:w"}, "", 6, 15, 0}}})
	res.DistinctNontrivial = nontrivial
	res.States = nontrivial
	res.Transitions = res.Evaluations
	res.Traces = res.Evaluations
	res.Finish()
}
