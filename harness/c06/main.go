// C06: shard routing is a deterministic partition of series.
package main

import (
	"context"
	"crypto/sha256"
	"fmt"
	"os"
	"sort"
	"strings"
	"time"

	"github.com/atlassian/gostatsd"
	"github.com/atlassian/gostatsd/internal/verif/lib/fx"
	"github.com/atlassian/gostatsd/internal/verif/vrt"
	"github.com/atlassian/gostatsd/pkg/statsd"
)

var res *vrt.Result
var nontrivial int64

type ser struct {
	Name   string
	Tags   []string
	Source string
	Type   gostatsd.MetricType
}

func (s ser) id() string {
	t := append([]string{}, s.Tags...)
	sort.Strings(t)
	return fmt.Sprintf("%d|%s|%s|%s", s.Type, s.Name, strings.Join(t, ","), s.Source)
}

func universe() []ser {
	var u []ser
	for _, n := range []string{"", "a", "b", "a.b"} {
		// the last two are one tag set written in two orders (two tags sharing a key): one series identity
		for _, tg := range [][]string{nil, {"t"}, {"k:v"}, {"t", "k:v"}, {"k:v", "k:w"}, {"k:w", "k:v"}} {
			for _, src := range []string{"", "h"} {
				for _, ty := range []gostatsd.MetricType{gostatsd.COUNTER, gostatsd.GAUGE, gostatsd.TIMER, gostatsd.SET} {
					u = append(u, ser{n, tg, src, ty})
				}
			}
		}
	}
	return u
}

// the first series of every batch carries the value 0 (a counter that nets to nothing, a gauge at 0, a 0 ms timer): it is
// a member of the batch like any other and has to land in its shard
func build(batch []ser) *gostatsd.MetricMap {
	mm := gostatsd.NewMetricMap(false)
	for i, s := range batch {
		mm.Receive(&gostatsd.Metric{Name: s.Name, Tags: append(gostatsd.Tags{}, s.Tags...), Source: gostatsd.Source(s.Source), Type: s.Type, Value: float64(i), StringValue: fmt.Sprint("m", i), Rate: 1, Timestamp: gostatsd.Nanotime(100 + i)})
	}
	return mm
}

var index = map[string]int{} // (series id, n) -> shard index observed

func idOfSnap(s fx.Series) string {
	ty := map[string]gostatsd.MetricType{"c": gostatsd.COUNTER, "g": gostatsd.GAUGE, "t": gostatsd.TIMER, "s": gostatsd.SET}[s.Type]
	return ser{s.Name, s.Tags, s.Source, ty}.id()
}

func checkBatch(batch []ser, maxN int) {
	for n := 1; n <= maxN; n++ {
		res.Evaluations++
		mm := build(batch)
		whole := fx.Snapshot(build(batch)) // independent copy for comparison
		parts := mm.Split(n)
		rp := map[string]any{"batch": batch, "n": n}
		bad := func(kind, msg string) {
			res.Violate(kind, fmt.Sprintf("%s: batch %v n=%d: %s", kind, batch, n, msg), rp)
		}
		if len(parts) != n {
			bad("split-count", fmt.Sprintf("%d parts", len(parts)))
			continue
		}
		seen := map[string]int{}
		idSeen := map[string]int{}
		var union []fx.Series
		used := map[int]bool{}
		for i, p := range parts {
			for _, s := range fx.Snapshot(p) {
				k := s.Key()
				if j, ok := seen[k]; ok {
					bad("not-disjoint", fmt.Sprintf("series %s in shards %d and %d", k, j, i))
				}
				seen[k] = i
				if j, ok := idSeen[idOfSnap(s)]; ok {
					bad("identity-split", fmt.Sprintf("the series %s (one name, tag set and source) is held under two keys, in shards %d and %d", idOfSnap(s), j, i))
				}
				idSeen[idOfSnap(s)] = i
				used[i] = true
				union = append(union, s)
				ik := fmt.Sprintf("%s#%d", idOfSnap(s), n)
				if prev, ok := index[ik]; ok && prev != i {
					bad("index-not-function", fmt.Sprintf("series %s went to shard %d, earlier to %d", k, i, prev))
				}
				index[ik] = i
			}
		}
		sort.Slice(union, func(i, j int) bool { return union[i].Key() < union[j].Key() })
		if fx.String(union, true) != fx.String(whole, true) {
			bad("union-differs", fmt.Sprintf("union of shards\n %s\n batch\n %s", fx.String(union, true), fx.String(whole, true)))
		}
		if len(used) > 1 {
			nontrivial++
		}
	}
}

// recording aggregator for the dispatch check
type recAggr struct{ got []*gostatsd.MetricMap }

func (a *recAggr) ReceiveMap(mm *gostatsd.MetricMap) { a.got = append(a.got, mm) }
func (a *recAggr) Flush(time.Duration)              {}
func (a *recAggr) Process(statsd.ProcessFunc)       {}
func (a *recAggr) Reset()                           {}

func checkDispatch(batch []ser, n int) {
	res.Evaluations++
	var aggrs []*recAggr
	bh := statsd.NewBackendHandler(nil, 1, n, 4, statsd.AggregatorFactoryFunc(func() statsd.Aggregator {
		a := &recAggr{}
		aggrs = append(aggrs, a)
		return a
	}))
	ctx, cancel := context.WithCancel(context.Background())
	done := make(chan struct{})
	go func() { bh.Run(ctx); close(done) }()
	want := build(batch).Split(n)
	bh.DispatchMetricMap(ctx, build(batch))
	// a Process round trip makes sure every queued map was merged before we look
	ids := make([]int, 0, n)
	bh.Process(ctx, func(id int, a statsd.Aggregator) { ids = append(ids, id) })()
	cancel()
	<-done
	for i := 0; i < n; i++ {
		var got []fx.Series
		for _, m := range aggrs[i].got {
			got = append(got, fx.Snapshot(m)...)
		}
		if fx.String(got, true) != fx.String(fx.Snapshot(want[i]), true) {
			res.Violate("dispatch-wrong-worker", fmt.Sprintf("batch %v n=%d: worker %d received %s, split %d is %s", batch, n, i, fx.String(got, true), i, fx.String(fx.Snapshot(want[i]), true)), map[string]any{"batch": batch, "n": n, "dispatch": true})
		}
	}
}

func main() {
	res = vrt.Init()
	u := universe()
	maxN, maxB := 8, 3
	if vrt.Thorough() {
		maxN, maxB = 32, 3
	}
	if *vrt.ReplayPath != "" {
		var rp struct {
			Batch    []ser
			N        int
			Dispatch bool
		}
		vrt.LoadReplay(&rp)
		if rp.Dispatch {
			checkDispatch(rp.Batch, rp.N)
		} else {
			checkBatch(rp.Batch, rp.N)
		}
		for _, v := range res.Violations {
			fmt.Println(v.Key, "\n ", v.Msg)
		}
		if len(res.Violations) > 0 {
			fmt.Printf("VIOLATION property=C06 replay=%s\n", *vrt.ReplayPath)
			os.Exit(1)
		}
		return
	}
	// every process first fixes the whole relation from singleton batches (for the cross-process digest)
	for _, s := range u {
		checkBatch([]ser{s}, maxN)
	}
	var ks []string
	for k, v := range index {
		ks = append(ks, fmt.Sprintf("%s=%d", k, v))
	}
	sort.Strings(ks)
	res.Info["agree.index_relation"] = fmt.Sprintf("%x", sha256.Sum256([]byte(strings.Join(ks, ";"))))
	var i int64
	for a := 0; a < len(u); a++ {
		for b := a + 1; b < len(u); b++ {
			i++
			if vrt.Mine(i) {
				checkBatch([]ser{u[a], u[b]}, maxN)
				checkBatch([]ser{u[b], u[a]}, maxN)
				if i%7 == 0 {
					checkDispatch([]ser{u[a], u[b]}, 2+int(i%3))
				}
			}
			if maxB >= 3 {
				for c := b + 1; c < len(u); c++ {
					i++
					if vrt.Mine(i) {
						checkBatch([]ser{u[a], u[b], u[c]}, maxN)
					}
				}
			}
		}
	}
	res.Sample(map[string]any{"batch": []ser{u[5], u[77]}, "n": 3})
	res.DistinctNontrivial = nontrivial
	res.States = int64(len(index))
	res.Transitions = res.Evaluations
	res.Traces = res.Evaluations
	res.Finish()
}
