// C07: merging batches is independent of order and grouping.
package main

import (
	"context"
	"fmt"
	"os"
	"strings"
	"time"

	"github.com/atlassian/gostatsd"
	"github.com/atlassian/gostatsd/internal/verif/lib/fx"
	"github.com/atlassian/gostatsd/internal/verif/ref/mapref"
	"github.com/atlassian/gostatsd/internal/verif/vrt"
	"github.com/atlassian/gostatsd/internal/verif/vsched"
	"github.com/atlassian/gostatsd/pkg/statsd"
)

var res *vrt.Result
var distinct = map[string]struct{}{}

// menu of small maps, described as datapoints
var menu = [][]mapref.DP{
	{{Type: "c", Name: "a", Value: 1, Rate: 1, TS: 1}},
	{{Type: "c", Name: "a", Value: -2, Rate: 1, TS: 2}},
	{{Type: "c", Name: "a", Value: 3, Rate: 0.5, TS: 1, Tags: []string{"x"}}},
	{{Type: "ms", Name: "t", Value: 1, Rate: 1, TS: 1}},
	{{Type: "ms", Name: "t", Value: 2, Rate: 0.5, TS: 2}, {Type: "ms", Name: "t", Value: 3, Rate: 0.5, TS: 2}},
	{{Type: "s", Name: "s", Str: "x", TS: 1}},
	{{Type: "s", Name: "s", Str: "x", TS: 2}, {Type: "s", Name: "s", Str: "y", TS: 2}},
	{{Type: "g", Name: "g", Value: 1, TS: 1}},
	{{Type: "g", Name: "g", Value: 2, TS: 2}},
	{{Type: "g", Name: "g", Value: 3, TS: 2}},
	{{Type: "c", Name: "a", Value: 5, Rate: 1, TS: 3}, {Type: "g", Name: "g", Value: 9, TS: 0}, {Type: "s", Name: "s", Str: "z", TS: 3}},
	{},
	// a set series without members (what a forwarder sends for an idle set, and what an aggregator holds
	// after a flush) carrying the newest timestamp
	{{Type: "s", Name: "s", Empty: true, TS: 4}},
	// one tag set written in two orders (two tags sharing a key): one series
	{{Type: "c", Name: "a", Value: 1, Rate: 1, TS: 1, Tags: []string{"k:v", "k:w"}}, {Type: "c", Name: "a", Value: 2, Rate: 1, TS: 1, Tags: []string{"k:w", "k:v"}}},
	// an older timer batch that is bigger than what a newer one left behind
	{{Type: "ms", Name: "t", Value: 6, Rate: 1, TS: 0}, {Type: "ms", Name: "t", Value: 7, Rate: 1, TS: 0}, {Type: "ms", Name: "t", Value: 8, Rate: 1, TS: 0}},
	// a fractional counter value with a sample rate
	{{Type: "c", Name: "a", Value: 2.5, Rate: 0.5, TS: 1}},
	// a counter batch that nets to zero but carries the newest timestamp
	{{Type: "c", Name: "a", Value: 0, Rate: 1, TS: 5}},
	// a sampled timer of an existing name under another tag set, after an untagged datapoint in the same map
	{{Type: "ms", Name: "t", Value: 5, Rate: 1, TS: 1}, {Type: "ms", Name: "t", Value: 7, Rate: 0.25, TS: 1, Tags: []string{"x"}}},
}

func toMetric(d mapref.DP) *gostatsd.Metric {
	ty := map[string]gostatsd.MetricType{"c": gostatsd.COUNTER, "g": gostatsd.GAUGE, "ms": gostatsd.TIMER, "s": gostatsd.SET}[d.Type]
	r := d.Rate
	if r == 0 {
		r = 1
	}
	return &gostatsd.Metric{Name: d.Name, Type: ty, Value: d.Value, StringValue: d.Str, Rate: r, Tags: append(gostatsd.Tags{}, d.Tags...), Source: gostatsd.Source(d.Source), Timestamp: gostatsd.Nanotime(d.TS)}
}

func buildMap(dps []mapref.DP) *gostatsd.MetricMap {
	mm := gostatsd.NewMetricMap(false)
	for _, d := range dps {
		if d.Empty {
			mm.MergeSet(d.Name, gostatsd.FormatTagsKey(gostatsd.Source(d.Source), d.Tags), gostatsd.Set{Values: map[string]struct{}{}, Timestamp: gostatsd.Nanotime(d.TS), Source: gostatsd.Source(d.Source), Tags: append(gostatsd.Tags{}, d.Tags...)})
			continue
		}
		mm.Receive(toMetric(d))
	}
	return mm
}

func want(seq []int) mapref.Agg {
	a := mapref.Agg{}
	for _, i := range seq {
		for _, d := range menu[i] {
			a.Add(d)
		}
	}
	return a
}

func compare(path string, seq []int, got *gostatsd.MetricMap, w mapref.Agg, extra string) {
	res.Evaluations++
	snap := fx.Snapshot(got)
	g, err := mapref.FromSnapshot(snap)
	diff := ""
	if err != nil {
		diff = err.Error()
	} else {
		diff = mapref.Diff(g, w, "any", true)
	}
	distinct[fx.String(snap, true)] = struct{}{}
	if diff != "" {
		res.Violate(path+" "+strings.SplitN(diff, " ", 2)[0], fmt.Sprintf("path %s %s sequence %v: %s", path, extra, seq, diff), map[string]any{"seq": seq, "path": path})
	}
}

// all bracketings of seq[lo:hi) as binary merge trees; each returns a fresh map
func trees(seq []int, lo, hi int, f func(build func() *gostatsd.MetricMap, shape string)) {
	if hi-lo == 1 {
		i := seq[lo]
		f(func() *gostatsd.MetricMap { return buildMap(menu[i]) }, fmt.Sprint(i))
		return
	}
	for mid := lo + 1; mid < hi; mid++ {
		trees(seq, lo, mid, func(lb func() *gostatsd.MetricMap, ls string) {
			trees(seq, mid, hi, func(rb func() *gostatsd.MetricMap, rs string) {
				f(func() *gostatsd.MetricMap {
					mm := gostatsd.NewMetricMap(false)
					mm.Merge(lb())
					mm.Merge(rb())
					return mm
				}, "("+ls+" "+rs+")")
			})
		})
	}
}

func checkSeq(seq []int) {
	w := want(seq)
	// 1. every bracketing of pairwise merges
	trees(seq, 0, len(seq), func(b func() *gostatsd.MetricMap, shape string) {
		compare("merge-tree", seq, b(), w, shape)
	})
	// 2. MergeMaps
	var mms []*gostatsd.MetricMap
	for _, i := range seq {
		mms = append(mms, buildMap(menu[i]))
	}
	compare("MergeMaps", seq, gostatsd.MergeMaps(mms), w, "")
	// 3. Receive of the flattened datapoints into one map
	mm := gostatsd.NewMetricMap(false)
	for _, i := range seq {
		for _, d := range menu[i] {
			if d.Empty {
				mm.Merge(buildMap([]mapref.DP{d}))
				continue
			}
			mm.Receive(toMetric(d))
		}
	}
	compare("Receive", seq, mm, w, "")
	// 4. aggregator
	ag := statsd.NewMetricAggregator(nil, time.Hour, time.Hour, time.Hour, time.Hour, gostatsd.TimerSubtypes{}, 0)
	for _, i := range seq {
		ag.ReceiveMap(buildMap(menu[i]))
	}
	ag.Process(func(m *gostatsd.MetricMap) { compare("aggregator", seq, m, w, "") })
	// 4b. aggregator with a flush (Flush/Process/Reset, expiry 0) after the first map: series persist with
	//     empty values, so only the newest-timestamp clause is compared for them
	if len(seq) >= 2 {
		ag := statsd.NewMetricAggregator(nil, 0, 0, 0, 0, gostatsd.TimerSubtypes{}, 0)
		ag.ReceiveMap(buildMap(menu[seq[0]]))
		ag.Flush(time.Second)
		ag.Process(func(*gostatsd.MetricMap) {})
		ag.Reset()
		for _, i := range seq[1:] {
			ag.ReceiveMap(buildMap(menu[i]))
		}
		ag.Process(func(m *gostatsd.MetricMap) {
			res.Evaluations++
			g, err := mapref.FromSnapshot(fx.Snapshot(m))
			if err != nil {
				return
			}
			for k, ws := range w {
				if gs := g[k]; gs != nil && gs.TS != ws.TS {
					res.Violate("aggregator-flush-between timestamp", fmt.Sprintf("sequence %v with a flush after the first map: series %s keeps timestamp %d, the newest seen is %d", seq, ws.String(), gs.TS, ws.TS), map[string]any{"seq": seq, "path": "aggregator-flush-between"})
				}
			}
		})
	}
	// 4c. the cloud-lookup queue
	cloudQueue(seq)
	// 5. consolidator, sequential, 1 and 2 slots
	for slots := 1; slots <= 2; slots++ {
		sink := make(chan []*gostatsd.MetricMap, 1)
		mc := gostatsd.NewMetricConsolidator(slots, false, time.Hour, sink)
		for k, i := range seq {
			if k%2 == 0 {
				mc.ReceiveMetricMap(buildMap(menu[i]))
			} else {
				var ms []*gostatsd.Metric
				for _, d := range menu[i] {
					if d.Empty {
						mc.ReceiveMetricMap(buildMap([]mapref.DP{d}))
						continue
					}
					ms = append(ms, toMetric(d))
				}
				mc.ReceiveMetrics(ms)
			}
		}
		mc.Flush()
		compare("consolidator", seq, gostatsd.MergeMaps(<-sink), w, fmt.Sprint("slots=", slots))
	}
}

// ---- the cloud-lookup queue as a merge path: batches of one unknown source are parked (merged into one
// queue) while the lookup is outstanding, and re-keyed when its answer arrives. Sequential, with real
// goroutines and no timing dependence: every step is acknowledged by a channel operation of the handler.

type fakeCI struct {
	ipSink chan gostatsd.Source
	info   chan gostatsd.InstanceInfo
}

func (c *fakeCI) Peek(gostatsd.Source) (*gostatsd.Instance, bool) { return nil, false }
func (c *fakeCI) IpSink() chan<- gostatsd.Source                  { return c.ipSink }
func (c *fakeCI) InfoSource() <-chan gostatsd.InstanceInfo        { return c.info }
func (c *fakeCI) EstimatedTags() int                              { return 1 }

type chanSink struct{ got chan *gostatsd.MetricMap }

func (s chanSink) EstimatedTags() int                                           { return 0 }
func (s chanSink) WaitForEvents()                                               {}
func (s chanSink) DispatchEvent(context.Context, *gostatsd.Event)               {}
func (s chanSink) DispatchMetricMap(_ context.Context, mm *gostatsd.MetricMap) { s.got <- mm }

var cloudQueueBroken bool

func cloudQueue(seq []int) {
	if cloudQueueBroken {
		return
	}
	const ip = gostatsd.Source("10.0.0.9")
	for variant, inst := range []*gostatsd.Instance{{ID: "i-9", Tags: gostatsd.Tags{"r:1"}}, {ID: "i-9"}, nil} {
		ci := &fakeCI{ipSink: make(chan gostatsd.Source, 4), info: make(chan gostatsd.InstanceInfo)}
		sink := chanSink{got: make(chan *gostatsd.MetricMap, 4)}
		ch := statsd.NewCloudHandler(ci, sink)
		ctx, cancel := context.WithCancel(context.Background())
		done := make(chan struct{})
		go func() { ch.Run(ctx); close(done) }()
		w := mapref.Agg{}
		n := 0
		for _, i := range seq {
			var dps []mapref.DP
			for _, d := range menu[i] {
				d.Source = string(ip)
				dps = append(dps, d)
				e := d
				if inst != nil {
					e.Source = string(inst.ID)
					e.Tags = append(append([]string{}, d.Tags...), inst.Tags...)
				}
				w.Add(e)
				n++
			}
			if len(dps) > 0 {
				ch.DispatchMetricMap(ctx, buildMap(dps)) // returns once Run has taken the batch
			}
		}
		var got *gostatsd.MetricMap
		if n > 0 {
			// each step below is a hand-off the handler completes within microseconds; a minute without it
			// means the batch was lost inside the stage (reported once, the path is then skipped)
			select {
			case <-ci.ipSink:
				ci.info <- gostatsd.InstanceInfo{IP: ip, Instance: inst}
				select {
				case got = <-sink.got:
				case <-time.After(time.Minute):
					cloudQueueBroken = true
					res.Violate("cloud-queue nothing-dispatched", fmt.Sprintf("sequence %v: nothing left the cloud stage after the lookup was answered", seq), map[string]any{"seq": seq, "path": "cloud-queue"})
				}
			case <-time.After(time.Minute):
				cloudQueueBroken = true
				res.Violate("cloud-queue no-lookup", fmt.Sprintf("sequence %v: batches of an unknown source were dispatched but no lookup was requested, so they can never leave the cloud stage", seq), map[string]any{"seq": seq, "path": "cloud-queue"})
			}
		}
		cancel()
		<-done
		if got != nil {
			compare("cloud-queue", seq, got, w, fmt.Sprint("lookup-variant=", variant))
		}
	}
}

func enum() {
	if *vrt.Shard == 0 {
		checkIdentityCollision()
	}
	k := 3
	if vrt.Thorough() {
		k = 4
	}
	res.Info["max_maps"] = k
	var i int64
	var rec func(cur []int)
	rec = func(cur []int) {
		if len(cur) > 0 {
			i++
			if vrt.Mine(i) {
				checkSeq(cur)
			}
		}
		if len(cur) == k {
			return
		}
		for m := range menu {
			rec(append(cur, m))
		}
	}
	rec(nil)
	res.Sample(map[string]any{"seq": []int{8, 9, 7}, "meaning": "gauge 2@ts2, gauge 3@ts2, gauge 1@ts1 through every merge path"})
	res.States = int64(len(distinct))
	res.Transitions = res.Evaluations
}

// ---------------------------------------------------------------------------------------------
// sched: concurrent receivers against one Flush

type scfg struct {
	Slots int
	Recv  []int // menu indices, one receiver thread each
	Mode  int   // bit k set: receiver k uses ReceiveMetrics
}

func (c scfg) String() string { return fmt.Sprintf("slots%d-%v-m%d", c.Slots, c.Recv, c.Mode) }

type srun struct {
	first, second []*gostatsd.MetricMap
	doneBefore    []bool // receiver returned before Flush started
	startedAfter  []bool // receiver started after Flush returned
}

func sbody(c scfg, r *srun) func(*vsched.Exec) {
	return func(x *vsched.Exec) {
		*r = srun{doneBefore: make([]bool, len(c.Recv)), startedAfter: make([]bool, len(c.Recv))}
		sink := make(chan []*gostatsd.MetricMap, 2)
		mc := gostatsd.NewMetricConsolidator(c.Slots, false, time.Hour, sink)
		flushStarted := false
		gate := new(int)
		for k, mi := range c.Recv {
			k, mi := k, mi
			vsched.GoNamed(fmt.Sprint("recv", k), func() {
				if c.Mode&(1<<k) != 0 {
					var ms []*gostatsd.Metric
					for _, d := range menu[mi] {
						ms = append(ms, toMetric(d))
					}
					mc.ReceiveMetrics(ms)
				} else {
					mc.ReceiveMetricMap(buildMap(menu[mi]))
				}
				vsched.Access(gate, false, "recv-returned")
				if !flushStarted {
					r.doneBefore[k] = true
				}
			})
		}
		vsched.GoNamed("flusher", func() {
			vsched.Access(gate, true, "flush-begins")
			flushStarted = true
			mc.Flush()
		})
		vsched.Quiesce("settle")
		mc.Flush()
		r.first = vsched.Recv(sink)
		r.second = vsched.Recv(sink)
	}
}

func scheck(c scfg, r *srun) func(*vsched.Exec, vsched.Outcome) (string, string) {
	return func(x *vsched.Exec, o vsched.Outcome) (string, string) {
		if o.Kind != "ok" {
			return o.Kind, o.Kind + ": " + o.Detail
		}
		all := append([]int{}, c.Recv...)
		w := want(all)
		both := append(append([]*gostatsd.MetricMap{}, r.first...), r.second...)
		got := gostatsd.MergeMaps(both)
		snap := fx.Snapshot(got)
		g, err := mapref.FromSnapshot(snap)
		if err != nil {
			return "dup", err.Error()
		}
		if d := mapref.Diff(g, w, "any", true); d != "" {
			return "conservation " + strings.SplitN(d, " ", 2)[0], "union of the two flushes differs from the reference fold: " + d
		}
		// what returned before the flush began must be in the first flush
		var must []int
		for k, mi := range c.Recv {
			if r.doneBefore[k] {
				must = append(must, mi)
			}
		}
		f1, err := mapref.FromSnapshot(fx.Snapshot(gostatsd.MergeMaps(r.first)))
		if err != nil {
			return "dup", err.Error()
		}
		wm := want(must)
		for k, s := range wm {
			gs := f1[k]
			if gs == nil {
				return "lost-from-first-flush", fmt.Sprintf("series %s was received before the flush began but is not in it", s.String())
			}
			if s.Type == "c" && len(must) == len(c.Recv) && gs.Count != s.Count {
				return "first-flush-count", fmt.Sprintf("all receivers returned before the flush, counter in first flush %d want %d", gs.Count, s.Count)
			}
		}
		if len(must) == len(c.Recv) {
			x.Note("all-before-flush")
			if d := mapref.Diff(f1, w, "any", true); d != "" {
				return "first-flush", "everything was received before the flush but: " + d
			}
		} else {
			x.Note("some-concurrent-with-flush")
		}
		if len(fx.Snapshot(gostatsd.MergeMaps(r.second))) > 0 {
			x.Note("data-in-second-flush")
		}
		distinct[c.String()+fx.String(fx.Snapshot(gostatsd.MergeMaps(r.first)), true)+"//"+fx.String(fx.Snapshot(gostatsd.MergeMaps(r.second)), true)] = struct{}{}
		return "", ""
	}
}

func sconfigs() []scfg {
	cs := []scfg{
		{1, []int{0, 1}, 0}, {2, []int{0, 1}, 2}, {2, []int{8, 9}, 1}, {1, []int{4, 3}, 2}, {2, []int{5, 6}, 0},
		{2, []int{0, 10, 1}, 2}, {1, []int{7, 9, 8}, 0},
	}
	if vrt.Thorough() {
		cs = append(cs, scfg{2, []int{4, 3, 10}, 5}, scfg{2, []int{0, 1, 2}, 7}, scfg{1, []int{5, 6, 10}, 3}, scfg{3, []int{0, 1, 10}, 0}, scfg{2, []int{8, 9, 7, 10}, 0})
	}
	return cs
}

type sreplay struct {
	Cfg     scfg
	Choices []vsched.TransKey
}

func sched() {
	for _, c := range sconfigs() {
		r := &srun{}
		st := vsched.Explore(vsched.Config{Name: c.String(), Shard: *vrt.Shard, NShards: *vrt.NShards, Deadline: vrt.Deadline(),
			StatesOut: fmt.Sprintf("states_%s_%d.bin", c.String(), *vrt.Shard), Body: sbody(c, r), Check: scheck(c, r)})
		res.Evaluations += st.Executions
		res.Traces += st.Executions
		res.Transitions += st.Transitions
		res.States += st.States
		res.Counters["state_keys_seen_beyond_the_kept_set"] += st.StatesBeyondCap
		res.Counters["sleep_blocked"] += st.SleepBlocked
		for k, v := range st.Notes {
			res.Counters["note."+k] += v
		}
		if !st.Exhaustive {
			res.Exhaustive = false
		}
		for _, v := range st.Violations {
			res.Violate(c.String()+":"+v.Key, v.Msg+"\ntrace:\n"+strings.Join(v.Trace, "\n"), sreplay{c, v.Choices})
		}
		for _, t := range st.SampleTraces {
			res.Sample(map[string]any{"config": c.String(), "schedule": t})
		}
	}
}

func main() {
	res = vrt.Init()
	if *vrt.ReplayPath != "" {
		if *vrt.Sub == "sched" {
			var rp sreplay
			vrt.LoadReplay(&rp)
			r := &srun{}
			o, key, msg, trace := vsched.Replay(vsched.Config{Body: sbody(rp.Cfg, r), Check: scheck(rp.Cfg, r)}, rp.Choices)
			fmt.Println(strings.Join(trace, "\n"))
			fmt.Printf("outcome=%s key=%s\n%s\n", o.Kind, key, msg)
			if msg != "" {
				fmt.Printf("VIOLATION property=C07 replay=%s\n", *vrt.ReplayPath)
				os.Exit(1)
			}
			return
		}
		var rp struct {
			Seq       []int
			Collision string
		}
		vrt.LoadReplay(&rp)
		if rp.Collision != "" {
			checkIdentityCollision()
		} else {
			checkSeq(rp.Seq)
		}
		for _, v := range res.Violations {
			fmt.Println(v.Key, "\n ", v.Msg)
		}
		if len(res.Violations) > 0 {
			fmt.Printf("VIOLATION property=C07 replay=%s\n", *vrt.ReplayPath)
			os.Exit(1)
		}
		return
	}
	switch *vrt.Sub {
	case "enum":
		enum()
		res.Traces = res.Evaluations
	case "sched":
		sched()
	}
	res.SetDistinctKeys(distinct)
	res.Finish()
}

var _ = context.Background
