package main

// Series identity is (name, tag set, source). The metric map files a series under the string FormatTagsKey builds:
// the sorted tags joined by ',', then ",s:<source>". A series without a source whose tag is literally "s:h" and a
// series with source h and no such tag get the same string. Merged in either order they must stay two series (or
// at least give the same aggregate) - checked on every merge path that takes whole maps.

import (
	"fmt"
	"sort"
	"strings"

	"github.com/atlassian/gostatsd"
	"github.com/atlassian/gostatsd/internal/verif/lib/fx"
	"github.com/atlassian/gostatsd/internal/verif/ref/mapref"
)

func checkIdentityCollision() {
	a := []mapref.DP{{Type: "c", Name: "k", Value: 1, Rate: 1, TS: 1, Tags: []string{"a", "s:h"}}}
	b := []mapref.DP{{Type: "c", Name: "k", Value: 2, Rate: 1, TS: 1, Tags: []string{"a"}, Source: "h"}}
	render := func(mm *gostatsd.MetricMap) string {
		var o []string
		for _, s := range fx.Snapshot(mm) {
			t := append([]string{}, s.Tags...)
			sort.Strings(t)
			o = append(o, fmt.Sprintf("%s %s tags=%v source=%q count=%d", s.Type, s.Name, t, s.Source, s.Count))
		}
		sort.Strings(o)
		return strings.Join(o, "; ")
	}
	for _, path := range []string{"Merge", "MergeMaps"} {
		res.Evaluations++
		var ab, ba *gostatsd.MetricMap
		switch path {
		case "Merge":
			ab, ba = buildMap(a), buildMap(b)
			ab.Merge(buildMap(b))
			ba.Merge(buildMap(a))
		case "MergeMaps":
			ab = gostatsd.MergeMaps([]*gostatsd.MetricMap{buildMap(a), buildMap(b)})
			ba = gostatsd.MergeMaps([]*gostatsd.MetricMap{buildMap(b), buildMap(a)})
		}
		want := "c k tags=[a s:h] source=\"\" count=1; c k tags=[a] source=\"h\" count=2"
		if g1, g2 := render(ab), render(ba); g1 != want || g2 != want {
			res.Violate("identity-collision tags-vs-source "+path, fmt.Sprintf("path %s: a counter k with tags [a s:h] and no source (value 1) and a counter k with tag [a] from source h (value 2) are two series; merged a-then-b: %s; merged b-then-a: %s; want in both orders: %s", path, g1, g2, want), map[string]any{"collision": path})
		}
	}
}
