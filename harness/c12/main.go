// C12: instance cache answers every lookup once and never forgets good data on error.
package main

import (
	"math"
	"context"
	"errors"
	"fmt"
	"github.com/spf13/viper"
	"github.com/tilinna/clock"
	"golang.org/x/time/rate"
	"os"
	"sort"
	"strings"
	"time"

	"github.com/atlassian/gostatsd"
	"github.com/atlassian/gostatsd/internal/verif/lib/fx"
	"github.com/atlassian/gostatsd/internal/verif/vrt"
	"github.com/atlassian/gostatsd/internal/verif/vsched"
	"github.com/atlassian/gostatsd/internal/verif/vtime"
	"github.com/atlassian/gostatsd/pkg/cachedinstances/cloudprovider"
	"github.com/atlassian/gostatsd/pkg/stats"
)

var (
	refresh = 10 * time.Second
	ttl     = 15 * time.Second
	negTTL  = 5 * time.Second
)

type cfg struct {
	Submit      []string // sources submitted by the client, in order
	MaxBatch    int
	Idle        time.Duration
	Ticks       int
	Peek        bool
	Emit        bool
	Outcomes    int  // number of provider outcome alternatives enumerated per call (1 = always found)
	SlowRefresh bool // refresh period 20s with TTL 5s: entries are long expired when the refresh happens
	Tight       bool // request budget of one provider call per second, burst 1: a batch that is due while the budget is used up has to wait for it, not be forgotten
	Held        bool // provider calls made after the initial lookups do not return until the harness lets them: a call can span refresh ticks
}

func (c cfg) String() string {
	return fmt.Sprintf("%s-b%d-idle%v-t%d-p%v-e%v-o%d-slow%v", strings.Join(c.Submit, ""), c.MaxBatch, c.Idle, c.Ticks, c.Peek, c.Emit, c.Outcomes, c.SlowRefresh) + map[bool]string{true: "-held"}[c.Held] + map[bool]string{true: "-tight"}[c.Tight]
}

type call struct {
	ips     []gostatsd.Source
	outcome int
	at      time.Time
}

type run struct {
	c            cfg
	ccp          *cloudprovider.CachedCloudProvider
	calls        []call
	answers      map[gostatsd.Source]int
	version      int
	lastGood     map[gostatsd.Source]string // last non-nil instance id answered by the provider
	everGood     map[gostatsd.Source]map[string]bool
	seenPositive map[gostatsd.Source]bool
	viol         string
	violKey      string
	callObj      *int
	gaugeEmits   map[string]int
	gate         chan struct{}
}

func (r *run) fail(k, m string) {
	if r.viol == "" {
		r.violKey, r.viol = k, m
	}
}

type provider struct{ r *run }

func (p provider) Name() string           { return "fake" }
func (p provider) MaxInstancesBatch() int { return p.r.c.MaxBatch }
func (p provider) EstimatedTags() int     { return 1 }
func (p provider) Instance(ctx context.Context, ips ...gostatsd.Source) (map[gostatsd.Source]*gostatsd.Instance, error) {
	vsched.Access(p.r.callObj, true, "provider-call")
	if len(ips) == 0 || len(ips) > p.r.c.MaxBatch {
		p.r.fail("batch-size", fmt.Sprintf("provider called with %d sources (max %d)", len(ips), p.r.c.MaxBatch))
	}
	o := 0
	if p.r.c.Outcomes > 1 {
		o = vsched.Choose(p.r.c.Outcomes, "provider-outcome")
	}
	if p.r.c.Held && len(p.r.calls) >= len(uniq(p.r.c.Submit)) {
		vsched.Recv(p.r.gate) // a slow provider call: it returns when the harness says so
	}
	p.r.calls = append(p.r.calls, call{append([]gostatsd.Source{}, ips...), o, vtime.Now()})
	mk := func(s gostatsd.Source) *gostatsd.Instance {
		p.r.version++
		id := fmt.Sprintf("i-%s-v%d", s, p.r.version)
		p.r.lastGood[s] = id
		if p.r.everGood[s] == nil {
			p.r.everGood[s] = map[string]bool{}
		}
		p.r.everGood[s][id] = true
		return &gostatsd.Instance{ID: gostatsd.Source(id), Tags: gostatsd.Tags{"t:" + string(s)}}
	}
	switch o {
	case 0:
		m := map[gostatsd.Source]*gostatsd.Instance{}
		for _, s := range ips {
			if m[s] == nil {
				m[s] = mk(s)
			}
		}
		return m, nil
	case 1:
		return map[gostatsd.Source]*gostatsd.Instance{}, nil
	case 2:
		return map[gostatsd.Source]*gostatsd.Instance{ips[0]: mk(ips[0])}, errors.New("partial failure")
	default:
		return nil, errors.New("provider down")
	}
}

type statser struct {
	*stats.NullStatser
	r      *run
	notify chan time.Duration
}

func (s *statser) RegisterFlush() (<-chan time.Duration, func()) { return s.notify, func() {} }
func (s *statser) Gauge(name string, v float64, tags gostatsd.Tags) {
	if s.r.gaugeEmits == nil {
		s.r.gaugeEmits = map[string]int{}
	}
	s.r.gaugeEmits[name]++
	dump, _, _ := s.r.ccp.VerifDump()
	pos, neg := 0, 0
	for _, e := range dump {
		if e.Instance != nil {
			pos++
		} else {
			neg++
		}
	}
	switch name {
	case "cloudprovider.cache_positive":
		if v != float64(pos) {
			s.r.fail("gauge-positive", fmt.Sprintf("cache_positive reported %v, cache holds %d positive entries", v, pos))
		}
	case "cloudprovider.cache_negative":
		if v != float64(neg) {
			s.r.fail("gauge-negative", fmt.Sprintf("cache_negative reported %v, cache holds %d negative entries", v, neg))
		}
	}
}

func body(c cfg, r *run) func(*vsched.Exec) {
	return func(x *vsched.Exec) {
		refresh, ttl, negTTL = 10*time.Second, 15*time.Second, 5*time.Second
		if c.SlowRefresh {
			refresh, ttl, negTTL = 20*time.Second, 5*time.Second, 5*time.Second
		}
		*r = run{c: c, answers: map[gostatsd.Source]int{}, lastGood: map[gostatsd.Source]string{}, seenPositive: map[gostatsd.Source]bool{}, everGood: map[gostatsd.Source]map[string]bool{}, callObj: new(int), gate: make(chan struct{}, 64)}
		ctx, mock := fx.NewClock(context.Background())
		// built as the gostatsd command builds it (this harness is compiled into cmd/gostatsd): cache periods and the
		// request limiter come from the command line; the limiter is finite with a burst smaller than a batch
		// (one token per provider call, never a wait worth mentioning)
		// the request limiter (golang.org/x/time/rate) runs on the mock clock; a wait for budget is a visible, cancellable wait
		wclock := vsched.EnvGet("clock").(clock.Clock)
		rate.VerifNow = func() time.Time { return wclock.Now() }
		rate.VerifWait = func(wctx context.Context, d time.Duration) error {
			t := wclock.NewTimer(d)
			if vsched.Select(false, vsched.CaseRecv(t.C), vsched.CaseRecv(wctx.Done())) == 1 {
				vsched.SelRecv2(wctx.Done())
				t.Stop()
				return wctx.Err()
			}
			vsched.SelRecv(t.C)
			return nil
		}
		ccp := newCachedInstancesFromViper(fx.Quiet(), provider{r}, viperFor(refresh, c.Idle, ttl, negTTL, c.Tight)).(*cloudprovider.CachedCloudProvider)
		r.ccp = ccp
		vsched.GoNamed("ccp.Run", func() { ccp.Run(ctx) })
		vsched.Quiesce("started") // Run has created its refresh ticker at t=0: ticks fire at exactly 10s, 20s
		vsched.GoNamed("drain", func() {
			for {
				info := vsched.Recv(ccp.InfoSource())
				r.answers[info.IP]++
			}
		})
		vsched.GoNamed("client", func() {
			for _, s := range c.Submit {
				vsched.Send(ccp.IpSink(), gostatsd.Source(s))
			}
		})
		st := &statser{NullStatser: &stats.NullStatser{}, r: r, notify: make(chan time.Duration)}
		if c.Emit {
			vsched.GoNamed("ccp.RunMetrics", func() { ccp.RunMetrics(ctx, st) })
		}
		peek := func(tag string) {
			for _, s := range uniq(c.Submit) {
				inst, hit := ccp.Peek(gostatsd.Source(s))
				if hit && inst != nil {
					r.seenPositive[gostatsd.Source(s)] = true
				}
				if hit && inst == nil && r.seenPositive[gostatsd.Source(s)] && c.Idle > time.Hour {
					// with eviction disabled a source the cache once served as an instance must never be served as unknown
					r.fail("forgot-good-data", fmt.Sprintf("%s: Peek(%s) returned a negative entry although the cache had served an instance for it before", tag, s))
				}
				if hit && inst != nil && !r.everGood[gostatsd.Source(s)][string(inst.ID)] {
					r.fail("invented-instance", fmt.Sprintf("%s: Peek(%s) returned %s which the provider never answered", tag, s, inst.ID))
				}
			}
		}
		// phase 1: submissions race with the batch window elapsing
		if c.Peek {
			vsched.GoNamed("peeker", func() { peek("phase1") })
		}
		vtime.Advance(mock, 10*time.Millisecond)
		vsched.Quiesce("phase1")
		vtime.Advance(mock, 10*time.Millisecond) // whatever was collected after the first window
		vsched.Quiesce("phase1b")
		if c.Tight {
			// every further provider call has to wait for its second of budget
			for i := 0; i < len(c.Submit)+1; i++ {
				vtime.Advance(mock, time.Second)
				vsched.Quiesce("budget")
				vtime.Advance(mock, 10*time.Millisecond)
				vsched.Quiesce("budget-batch-window")
			}
		}
		r.checkQuiescent("after submissions", mock.Now(), false)
		for t := 0; t < c.Ticks; t++ {
			before, _, _ := ccp.VerifDump()
			if c.Peek {
				// a Peek racing with every refresh tick (it stamps the entry's last access without a lock)
				vsched.GoNamed("peeker2", func() { peek("tick") })
			}
			if c.Emit {
				vsched.GoNamed("emitter", func() { vsched.Send(st.notify, time.Second) })
			}
			ncalls := len(r.calls)
			vtime.Advance(mock, refresh-20*time.Millisecond*time.Duration(1-t)) // ticks land on 10s, 20s
			tickAt := mock.Now()
			vsched.Quiesce("tick")
			vtime.Advance(mock, 10*time.Millisecond)
			vsched.Quiesce("refresh-lookups")
			r.checkTick(before, tickAt, ncalls)
			if !c.Held {
				r.checkQuiescent(fmt.Sprintf("after tick %d", t), mock.Now(), true)
			}
		}
		if c.Held {
			// let the slow calls return, one after the other, and everything settle
			for i := 0; i < 32; i++ {
				r.gate <- struct{}{}
			}
			vsched.Quiesce("released")
			vtime.Advance(mock, 10*time.Millisecond)
			vsched.Quiesce("released-batch-window")
			r.checkQuiescent("after the held calls returned", mock.Now(), true)
		}
		if c.Emit {
			before := map[string]int{}
			for k, n := range r.gaugeEmits {
				before[k] = n
			}
			vsched.GoNamed("emitter-final", func() { vsched.Send(st.notify, time.Second) })
			vsched.Quiesce("final-emit")
			// gauges are last-value metrics: every flush has to report both sizes, also (and above all) when they are back at 0
			for _, name := range []string{"cloudprovider.cache_positive", "cloudprovider.cache_negative"} {
				if r.gaugeEmits[name] == before[name] {
					dump, _, _ := ccp.VerifDump()
					r.fail("gauge-not-emitted", fmt.Sprintf("a flush was announced and %s was not reported (the cache holds %d entries now, %d reports of this gauge so far)", name, len(dump), before[name]))
				}
			}
		}
	}
}

var vipers = map[[5]time.Duration]*viper.Viper{}

func viperFor(refresh, idle, ttl, negTTL time.Duration, tight bool) *viper.Viper {
	k := [5]time.Duration{refresh, idle, ttl, negTTL, map[bool]time.Duration{true: 1}[tight]}
	if v := vipers[k]; v != nil {
		return v
	}
	old := os.Args
	os.Args = []string{"gostatsd", "--backends=null", "--max-cloud-requests=" + map[bool]string{false: "1000000000", true: "1"}[tight], "--burst-cloud-requests=1",
		verifDur("cloud-cache-refresh-period", refresh), verifDur("cloud-cache-evict-after-idle-period", idle), verifDur("cloud-cache-ttl", ttl), verifDur("cloud-cache-negative-ttl", negTTL)}
	v, _, err := setupConfiguration()
	os.Args = old
	if err != nil {
		panic(err)
	}
	vipers[k] = v
	return v
}

func uniq(ss []string) []string {
	m := map[string]bool{}
	var o []string
	for _, s := range ss {
		if !m[s] {
			m[s] = true
			o = append(o, s)
		}
	}
	return o
}

func keys(m map[string]bool) []string {
	var o []string
	for k := range m {
		o = append(o, k)
	}
	sort.Strings(o)
	return o
}

// checkQuiescent: answers == occurrences in provider calls; every submission was queried; the cache
// serves the latest good instance of every source that ever resolved (unless evicted).
func (r *run) checkQuiescent(when string, now time.Time, afterTick bool) {
	occ := map[gostatsd.Source]int{}
	for _, c := range r.calls {
		for _, s := range c.ips {
			occ[s]++
		}
	}
	for s, n := range occ {
		if r.answers[s] != n {
			r.fail("answers-vs-queries", fmt.Sprintf("%s: source %s was in %d provider queries but %d answers were delivered", when, s, n, r.answers[s]))
		}
	}
	for s, n := range r.answers {
		if occ[s] != n {
			r.fail("answers-vs-queries", fmt.Sprintf("%s: %d answers for %s but %d queries", when, n, s, occ[s]))
		}
	}
	sub := map[gostatsd.Source]int{}
	for _, s := range r.c.Submit {
		sub[gostatsd.Source(s)]++
	}
	for s, n := range sub {
		if occ[s] < n {
			r.fail("submission-not-queried", fmt.Sprintf("%s: source %s submitted %d times but queried %d times", when, s, n, occ[s]))
		}
	}
	dump, pos, neg := r.ccp.VerifDump()
	// every entry expires one TTL (negative TTL if the latest answer for it was "nothing" or an error) after that
	// answer was handled; the cache handles an answer within the 20ms the harness lets pass after the provider call
	type ans struct {
		at   time.Time
		good bool
	}
	latest := map[gostatsd.Source]ans{}
	for _, c := range r.calls {
		for i, s := range c.ips {
			latest[s] = ans{c.at, c.outcome == 0 || (c.outcome == 2 && i == 0)}
		}
	}
	for s, e := range dump {
		l, ok := latest[s]
		if !ok {
			continue
		}
		want := negTTL
		if l.good {
			want = ttl
		}
		lo := l.at.Add(want).UnixNano()
		if e.Expires < lo || e.Expires > lo+int64(20*time.Millisecond) {
			r.fail("wrong-expiry", fmt.Sprintf("%s: entry %s was last answered at %v (instance: %v) and expires %v later; the configured TTL for that kind of answer is %v", when, s, l.at.Sub(fx.Epoch), l.good, time.Duration(e.Expires-l.at.UnixNano()), want))
		}
	}
	p, n := 0, 0
	for s, e := range dump {
		if e.Instance != nil {
			p++
			if string(e.Instance.ID) != r.lastGood[s] {
				r.fail("stale-instance", fmt.Sprintf("%s: cache serves %s for %s, the provider's latest good answer is %s", when, e.Instance.ID, s, r.lastGood[s]))
			}
		} else {
			n++
			if r.lastGood[s] != "" && r.c.Idle > time.Hour {
				// at quiescence every provider answer has been handled by the cache
				r.fail("forgot-good-data", fmt.Sprintf("%s: cache entry of %s is negative although the provider had resolved it to %s", when, s, r.lastGood[s]))
			}
		}
	}
	if uint64(p) != pos || uint64(n) != neg {
		r.fail("gauge-state", fmt.Sprintf("%s: cache holds %d positive / %d negative entries, gauges say %d / %d", when, p, n, pos, neg))
	}
}

// checkTick: eviction and refresh decisions of the tick that fired at tickAt.
func (r *run) checkTick(before map[gostatsd.Source]cloudprovider.VerifEntry, tickAt time.Time, callsBefore int) {
	after, _, _ := r.ccp.VerifDump()
	requeried := map[gostatsd.Source]bool{}
	for _, c := range r.calls[callsBefore:] {
		for _, s := range c.ips {
			requeried[s] = true
		}
	}
	for s, e := range after {
		if tickAt.UnixNano()-e.LastAccess > r.c.Idle.Nanoseconds() {
			if _, had := before[s]; had {
				r.fail("idle-not-evicted", fmt.Sprintf("entry %s unused for %v (idle period %v) survived the refresh tick", s, time.Duration(tickAt.UnixNano()-e.LastAccess), r.c.Idle))
			}
		}
	}
	for s, e := range before {
		if a, ok := after[s]; ok && !r.c.Peek && a.LastAccess != e.LastAccess {
			// nothing read the entry between the two dumps: a refresh - whatever it answered - is not a use
			r.fail("refresh-counts-as-use", fmt.Sprintf("entry %s was last used %v before the tick; after the tick's refresh (nobody read it) its last use is recorded as %v before the tick", s, time.Duration(tickAt.UnixNano()-e.LastAccess), time.Duration(tickAt.UnixNano()-a.LastAccess)))
		}
		_, still := after[s]
		idle := tickAt.UnixNano()-e.LastAccess > r.c.Idle.Nanoseconds()
		if !still && !idle && !r.c.Peek {
			r.fail("evicted-while-fresh", fmt.Sprintf("entry %s (last access %v before the tick) was evicted", s, time.Duration(tickAt.UnixNano()-e.LastAccess)))
		}
		if still && !idle && tickAt.UnixNano() > e.Expires && !requeried[s] && !r.c.Held {
			r.fail("expired-not-requeried", fmt.Sprintf("entry %s expired %v before the tick but was not queried again", s, time.Duration(tickAt.UnixNano()-e.Expires)))
		}
	}
}

func check(c cfg, r *run, outcomes map[string]struct{}) func(*vsched.Exec, vsched.Outcome) (string, string) {
	return func(x *vsched.Exec, o vsched.Outcome) (string, string) {
		if o.Kind != "ok" {
			return o.Kind, o.Kind + ": " + o.Detail
		}
		if r.viol != "" {
			return r.violKey, r.viol
		}
		var sig strings.Builder
		for _, cl := range r.calls {
			fmt.Fprintf(&sig, "%v/%d;", cl.ips, cl.outcome)
			if len(cl.ips) > 1 {
				x.Note("batched-call")
			}
			if cl.outcome != 0 {
				x.Note("provider-fault")
			}
		}
		dump, _, _ := r.ccp.VerifDump()
		var ks []string
		for s, e := range dump {
			ks = append(ks, fmt.Sprintf("%s=%v", s, e.Instance != nil))
		}
		sort.Strings(ks)
		outcomes[c.String()+sig.String()+strings.Join(ks, ",")] = struct{}{}
		if len(r.calls) > len(uniq(c.Submit)) {
			x.Note("refresh-or-duplicate-query")
		}
		return "", ""
	}
}

func configs() []cfg {
	never := 1000 * time.Hour
	cs := []cfg{
		{Submit: []string{"a", "b"}, MaxBatch: 2, Idle: never, Ticks: 0, Peek: true, Outcomes: 4},
		{Submit: []string{"a"}, MaxBatch: 1, Idle: never, Ticks: 3, Peek: true, Outcomes: 2, SlowRefresh: true},
		{Submit: []string{"a", "a"}, MaxBatch: 2, Idle: never, Ticks: 1, Emit: true, Outcomes: 2},
		{Submit: []string{"a"}, MaxBatch: 1, Idle: never, Ticks: 2, Peek: true, Outcomes: 3},
		{Submit: []string{"a", "b"}, MaxBatch: 1, Idle: 12 * time.Second, Ticks: 2, Emit: true, Outcomes: 2},
		{Submit: []string{"a"}, MaxBatch: 2, Idle: 12 * time.Second, Ticks: 2, Peek: true, Emit: true, Outcomes: 2},
		// three sources, batch 1, refresh 10s / TTL 15s / idle 25s: at the 20s tick all three are expired and queued
		// behind one slow provider call; at the 30s tick they are idle and must be evicted although the backlog is still there
		{Submit: []string{"a", "b", "c"}, MaxBatch: 1, Idle: 25 * time.Second, Ticks: 3, Outcomes: 1, Held: true},
		// eviction "switched off" with the largest duration the flags accept
		{Submit: []string{"a"}, MaxBatch: 1, Idle: time.Duration(math.MaxInt64), Ticks: 2, Outcomes: 2},
		// one provider call per second: the second and third source wait for their budget
		{Submit: []string{"a", "b", "c"}, MaxBatch: 1, Idle: never, Ticks: 1, Outcomes: 1, Tight: true},
	}
	if vrt.Thorough() {
		cs = append(cs, cfg{Submit: []string{"a", "b", "a"}, MaxBatch: 2, Idle: never, Ticks: 1, Peek: true, Emit: true, Outcomes: 4}, cfg{Submit: []string{"a", "b"}, MaxBatch: 2, Idle: 12 * time.Second, Ticks: 2, Peek: true, Emit: true, Outcomes: 4}, cfg{Submit: []string{"a", "b", "c"}, MaxBatch: 2, Idle: never, Ticks: 2, Outcomes: 3}, cfg{Submit: []string{"a", "b"}, MaxBatch: 2, Idle: never, Ticks: 3, Peek: true, Emit: true, Outcomes: 3, SlowRefresh: true})
	}
	return cs
}

type replay struct {
	Cfg     cfg
	Choices []vsched.TransKey
}

func main() {
	res := vrt.Init()
	if *vrt.ReplayPath != "" {
		var rp replay
		vrt.LoadReplay(&rp)
		r := &run{}
		o, key, msg, trace := vsched.Replay(vsched.Config{Body: body(rp.Cfg, r), Check: check(rp.Cfg, r, map[string]struct{}{})}, rp.Choices)
		fmt.Println(strings.Join(trace, "\n"))
		fmt.Printf("outcome=%s key=%s\n%s\n", o.Kind, key, msg)
		if msg != "" {
			fmt.Printf("VIOLATION property=C12 replay=%s\n", *vrt.ReplayPath)
			os.Exit(1)
		}
		return
	}
	outcomes := map[string]struct{}{}
	var info []string
	for i, c := range configs() {
		if vrt.Expired() {
			res.Exhaustive = false
			break
		}
		r := &run{}
		st := vsched.Explore(vsched.Config{Name: c.String(), Deadline: vrt.Deadline(), Shard: *vrt.Shard, NShards: *vrt.NShards, SplitLvl: 3,
			StatesOut: fmt.Sprintf("states_%d_%d.bin", i, *vrt.Shard), Body: body(c, r), Check: check(c, r, outcomes)})
		res.Evaluations += st.Executions
		res.Traces += st.Executions
		res.Transitions += st.Transitions
		res.States += st.States
		res.Counters["state_keys_seen_beyond_the_kept_set"] += st.StatesBeyondCap
		res.Counters["sleep_blocked"] += st.SleepBlocked
		for k, v := range st.Notes {
			res.Counters["note."+k] += v
		}
		for k, v := range st.Outcomes {
			res.Counters["outcome."+k] += v
		}
		if !st.Exhaustive {
			res.Exhaustive = false
		}
		info = append(info, fmt.Sprintf("%s: execs=%d exhaustive=%v", c, st.Executions, st.Exhaustive))
		for _, v := range st.Violations {
			res.Violate(v.Key+" "+c.String(), v.Msg+"\ntrace:\n"+strings.Join(v.Trace, "\n"), replay{c, v.Choices})
		}
		if i == 0 {
			for _, t := range st.SampleTraces {
				res.Sample(map[string]any{"config": c.String(), "schedule": t})
			}
		}
	}
	res.Info["configs"] = info
	res.SetDistinctKeys(outcomes)
	res.Finish()
}
