// selftest: toy programs with known outcome sets, used to validate the scheduler and its reduction.
package main

import (
	"fmt"
	"sort"
	"strings"

	"github.com/atlassian/gostatsd/internal/verif/vsched"
	"github.com/atlassian/gostatsd/internal/verif/vsync"
)

func run(name string, nosleep bool, body func(x *vsched.Exec, out *[]string)) {
	outcomes := map[string]int{}
	var log []string
	st := vsched.Explore(vsched.Config{Name: name, NoSleep: nosleep,
		Body: func(x *vsched.Exec) { log = nil; body(x, &log) },
		Check: func(x *vsched.Exec, o vsched.Outcome) (string, string) {
			outcomes[o.Kind+":"+strings.Join(log, ",")]++
			return "", ""
		}, AllowDeadlock: true})
	var ks []string
	for k := range outcomes {
		ks = append(ks, k)
	}
	sort.Strings(ks)
	fmt.Printf("%s nosleep=%v execs=%d blocked=%d states=%d trans=%d outcomes=%d %v viol=%d\n", name, nosleep, st.Executions, st.SleepBlocked, st.States, st.Transitions, len(ks), ks, len(st.Violations))
}

func main() {
	for _, ns := range []bool{true, false} {
		// two producers, one consumer over an unbuffered channel; consumer records order
		run("rendezvous", ns, func(x *vsched.Exec, out *[]string) {
			c := make(chan int)
			var wg vsync.WaitGroup
			wg.Add(2)
			vsched.Go(func() { defer wg.Done(); vsched.Send(c, 1) })
			vsched.Go(func() { defer wg.Done(); vsched.Send(c, 2) })
			a := vsched.Recv(c)
			b := vsched.Recv(c)
			wg.Wait()
			*out = append(*out, fmt.Sprint(a, b))
		})
		// buffered channel + select with two ready arms + default
		run("select", ns, func(x *vsched.Exec, out *[]string) {
			a, b := make(chan int, 1), make(chan int, 1)
			done := make(chan struct{})
			vsched.Go(func() { vsched.Send(a, 1); vsched.Send(b, 2); vsched.Close(done) })
			for i := 0; i < 2; i++ {
				switch vsched.Select(true, vsched.CaseRecv(a), vsched.CaseRecv(b)) {
				case 0:
					*out = append(*out, fmt.Sprint("a", vsched.SelRecv(a)))
				case 1:
					*out = append(*out, fmt.Sprint("b", vsched.SelRecv(b)))
				case -1:
					*out = append(*out, "d")
				}
			}
			vsched.Recv(done)
		})
		// lost update: two threads do read; yield; write on a shared int guarded wrongly
		run("lostupdate", ns, func(x *vsched.Exec, out *[]string) {
			n := 0
			var mu vsync.Mutex
			var wg vsync.WaitGroup
			for i := 0; i < 2; i++ {
				wg.Add(1)
				vsched.Go(func() {
					defer wg.Done()
					mu.Lock()
					v := n
					mu.Unlock()
					mu.Lock()
					n = v + 1
					mu.Unlock()
				})
			}
			wg.Wait()
			*out = append(*out, fmt.Sprint(n))
		})
		// deadlock: classic lock order inversion
		run("deadlock", ns, func(x *vsched.Exec, out *[]string) {
			var m1, m2 vsync.Mutex
			var wg vsync.WaitGroup
			wg.Add(2)
			vsched.Go(func() { defer wg.Done(); m1.Lock(); m2.Lock(); m2.Unlock(); m1.Unlock() })
			vsched.Go(func() { defer wg.Done(); m2.Lock(); m1.Lock(); m1.Unlock(); m2.Unlock() })
			wg.Wait()
		})
		// independent threads: sleep sets must collapse to one execution
		run("independent", ns, func(x *vsched.Exec, out *[]string) {
			var wg vsync.WaitGroup
			for i := 0; i < 3; i++ {
				wg.Add(1)
				c := make(chan int, 2)
				vsched.Go(func() { defer wg.Done(); vsched.Send(c, 1); vsched.Send(c, 2) })
			}
			wg.Wait()
		})
		// choose + panic
		run("choose", ns, func(x *vsched.Exec, out *[]string) {
			k := vsched.Choose(3, "k")
			c := make(chan int)
			vsched.Go(func() {
				if k == 2 {
					panic("boom")
				}
				vsched.Send(c, k)
			})
			*out = append(*out, fmt.Sprint(vsched.Recv(c)))
		})
	}
}
