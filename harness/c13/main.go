// C13: Kubernetes lookups reflect the current pod holding an IP.
package main

import (
	"fmt"
	"net/http"
	"net/http/httptest"
	"os"
	"regexp"
	"sort"
	"strings"
	"time"

	core_v1 "k8s.io/api/core/v1"
	meta_v1 "k8s.io/apimachinery/pkg/apis/meta/v1"
	"k8s.io/client-go/kubernetes/fake"
	"k8s.io/client-go/tools/cache"

	"github.com/spf13/viper"

	"github.com/atlassian/gostatsd"
	"github.com/atlassian/gostatsd/internal/verif/lib/fx"
	"github.com/atlassian/gostatsd/internal/verif/vrt"
	"github.com/atlassian/gostatsd/pkg/cachedinstances/k8s"
)

var res *vrt.Result

const hostIP = "10.0.0.1"

type variant struct {
	Phase    core_v1.PodPhase
	HostNet  bool
	IP       string
	Deleting bool
	Meta     int
	// Sec: a second entry of status.podIPs (a dual-stack pod). The provider's index is by status.podIP alone: nobody is
	// found under the secondary address, and the lookup of it says so however the pod changes afterwards
	Sec string
}

var variants []variant

func init() {
	for m := 0; m < 2; m++ {
		variants = append(variants, variant{core_v1.PodPending, false, "", false, m, ""})
		for _, ip := range []string{"X", "Y"} {
			variants = append(variants, variant{core_v1.PodRunning, false, ip, false, m, ""})
			variants = append(variants, variant{core_v1.PodSucceeded, false, ip, false, m, ""})
		}
		variants = append(variants, variant{core_v1.PodRunning, true, "X", false, m, ""})
	}
	variants = append(variants, variant{core_v1.PodFailed, false, "X", false, 0, ""}, variant{core_v1.PodRunning, false, "X", true, 0, ""}, variant{core_v1.PodRunning, false, hostIP, false, 0, ""}, variant{core_v1.PodPending, false, "Y", false, 1, ""},
		variant{core_v1.PodRunning, false, "X", false, 0, "Y"})
}

var metas = []struct{ labels, ann map[string]string }{
	// (a label and an annotation that give the same tag name; two annotation keys that one alternative regex maps to the same name)
	{map[string]string{"app": "web", "team/x": "a"}, map[string]string{"gostatsd.atlassian.com/tag1": "v1", "other": "o", "gostatsd.atlassian.com/app": "frontend", "gostatsd.atlassian.com/er": "e2", "app": "ann-app"}}, // (the key app is a label and an annotation: each is read with its own regex)
	{map[string]string{"app": "db", "team/canary": ""}, map[string]string{"gostatsd.atlassian.com/tag1": "v2", "gostatsd.atlassian.com/tag2": "w", "gostatsd.atlassian.com/marker": ""}}, // (marker-style keys: the value is empty)
}

func mkPod(name string, v variant) *core_v1.Pod {
	p := &core_v1.Pod{ObjectMeta: meta_v1.ObjectMeta{Namespace: "ns", Name: name, Labels: metas[v.Meta].labels, Annotations: metas[v.Meta].ann},
		Spec: core_v1.PodSpec{HostNetwork: v.HostNet}, Status: core_v1.PodStatus{Phase: v.Phase, PodIP: v.IP, HostIP: hostIP}}
	if v.Sec != "" {
		p.Status.PodIPs = []core_v1.PodIP{{IP: v.IP}, {IP: v.Sec}}
	}
	if v.Deleting {
		t := meta_v1.NewTime(time.Unix(1, 0))
		p.DeletionTimestamp = &t
	}
	return p
}

func indexable(v variant) bool {
	return v.IP != "" && v.Phase != core_v1.PodSucceeded && v.Phase != core_v1.PodFailed && !v.Deleting && !v.HostNet && v.IP != hostIP
}

type rcfg struct{ Ann, Label string }

var rcfgs = []rcfg{
	{k8s.DefaultAnnotationTagRegex, ""},
	{"", "^app$"},
	{k8s.DefaultAnnotationTagRegex, "^(?P<tag>app)$"},
	{"", "^team/(?P<tag>.*)$|^app$"},
	{"", ""},
	// regexes that are not anchored at the start: the match begins in the middle of the key
	{"atlassian\\.com/(?P<tag>.+)$", "eam/(?P<tag>.*)$"},
	// both regexes match the key app (a label and an annotation of meta set 0) and name the tag differently
	{"^(?:gostatsd\\.atlassian\\.com/(?P<tag>.+)|(?P<tag>app))$", "^a(?P<tag>pp)$"},
	// one alternative per prefix, each with its own group named tag
	{"^(?:gostatsd\\.atlassian\\.com/(?P<tag>.+)|oth(?P<tag>.+))$", "^(?:team/(?P<tag>.+)|a(?P<tag>p+))$"},
}

// op encoding: pod*100 + kind ; kind 0..len(variants)-1 = set to variant (add or update), 98 = delete, 99 = lookup(pod index = ip index)
type op struct {
	Pod, Kind int
}

func (o op) String() string {
	switch o.Kind {
	case 98:
		return fmt.Sprintf("delete(p%d)", o.Pod)
	case 97:
		return fmt.Sprintf("delete-seen-after-relist(p%d)", o.Pod)
	case 99:
		return fmt.Sprintf("lookup(%s)", []string{"X", "Y"}[o.Pod])
	}
	return fmt.Sprintf("set(p%d,%+v)", o.Pod, variants[o.Kind])
}

type world struct {
	p    *k8s.Provider
	pods [2]int // -1 absent, else variant index
	objs [2]*core_v1.Pod
	c    rcfg
}

func compile(s string) *regexp.Regexp {
	if s == "" {
		return nil
	}
	return regexp.MustCompile(s)
}

func newWorld(c rcfg) *world {
	p, err := k8s.NewProvider(fx.Quiet(), fake.NewSimpleClientset(), k8s.PodInformerOptions{ResyncPeriod: time.Hour, WatchCluster: true}, compile(c.Ann), compile(c.Label))
	if err != nil {
		panic(err)
	}
	return &world{p: p, pods: [2]int{-1, -1}, c: c}
}

func refTagName(re *regexp.Regexp, key string) string {
	m := re.FindStringSubmatchIndex(key)
	if m == nil || m[1]-m[0] == 0 {
		return ""
	}
	// "the capture group named tag when it matched non-empty text": Go allows several groups of one name
	// (one per alternative); the one that took part in the match counts
	for i, n := range re.SubexpNames() {
		if n == "tag" && m[2*i] >= 0 && m[2*i+1] > m[2*i] {
			return key[m[2*i]:m[2*i+1]]
		}
	}
	return key
}

// reference lookup over the current pod set
func (w *world) want(ip string) (string, []string, bool) {
	var holder []int
	for i, v := range w.pods {
		if v >= 0 && variants[v].IP == ip && indexable(variants[v]) {
			holder = append(holder, i)
		}
	}
	if len(holder) != 1 {
		return "", nil, false
	}
	v := variants[w.pods[holder[0]]]
	var tags []string
	if re := compile(w.c.Label); re != nil {
		for k, val := range metas[v.Meta].labels {
			if n := refTagName(re, k); n != "" {
				tags = append(tags, n+":"+val)
			}
		}
	}
	if re := compile(w.c.Ann); re != nil {
		for k, val := range metas[v.Meta].ann {
			if n := refTagName(re, k); n != "" {
				tags = append(tags, n+":"+val)
			}
		}
	}
	sort.Strings(tags)
	return fmt.Sprintf("ns/p%d", holder[0]), tags, true
}

// enabled reports whether the op stays inside the property's domain.
func (w *world) enabled(o op) bool {
	switch o.Kind {
	case 97, 98:
		return w.pods[o.Pod] >= 0
	case 99:
		return true
	}
	if w.pods[o.Pod] == o.Kind {
		return false
	}
	nv := variants[o.Kind]
	other := w.pods[1-o.Pod]
	if indexable(nv) && other >= 0 && indexable(variants[other]) && variants[other].IP == nv.IP {
		return false // two indexable pods would share an IP
	}
	return true
}

func (w *world) apply(o op) string {
	idx, h := w.p.VerifIndexer(), w.p.VerifHandler()
	name := fmt.Sprintf("p%d", o.Pod)
	switch o.Kind {
	case 97, 98:
		old := w.objs[o.Pod]
		if err := idx.Delete(old); err != nil {
			panic(err)
		}
		if o.Kind == 97 {
			// the watch was interrupted and the pod is missing from the re-list: the informer delivers the
			// deletion as a tombstone carrying the last known state
			key, _ := cache.MetaNamespaceKeyFunc(old)
			h.OnDelete(cache.DeletedFinalStateUnknown{Key: key, Obj: old})
		} else {
			h.OnDelete(old)
		}
		w.pods[o.Pod], w.objs[o.Pod] = -1, nil
	case 99:
		ip := []string{"X", "Y"}[o.Pod]
		inst, hit := w.p.Peek(gostatsd.Source(ip))
		id, tags, ok := w.want(ip)
		if !hit {
			return "Peek reported a cache miss"
		}
		if !ok {
			if inst != nil {
				return fmt.Sprintf("lookup(%s) = %s %v, but no running non-host-network pod holds that IP", ip, inst.ID, inst.Tags)
			}
			return ""
		}
		if inst == nil {
			return fmt.Sprintf("lookup(%s) = nothing, want %s %v", ip, id, tags)
		}
		got := append([]string{}, inst.Tags...)
		sort.Strings(got)
		if string(inst.ID) != id || fmt.Sprint(got) != fmt.Sprint(tags) {
			return fmt.Sprintf("lookup(%s) = %s %v, want %s %v", ip, inst.ID, got, id, tags)
		}
	default:
		np := mkPod(name, variants[o.Kind])
		if w.pods[o.Pod] < 0 {
			if err := idx.Add(np); err != nil {
				panic(err)
			}
			h.OnAdd(np)
		} else {
			old := w.objs[o.Pod]
			if err := idx.Update(np); err != nil {
				panic(err)
			}
			h.OnUpdate(old, np)
		}
		w.pods[o.Pod], w.objs[o.Pod] = o.Kind, np
	}
	return ""
}

func (w *world) canon() string {
	return fmt.Sprintf("%v|%s", w.pods, w.p.VerifCacheDump())
}

// viperChecks builds the provider the way the server does - NewProviderFromViper with a kubeconfig, against
// a local stand-in for the API server that lists no pods - for every combination of empty / default /
// custom annotation and label regexes, and looks a pod up.
func viperChecks() {
	srv := httptest.NewServer(http.HandlerFunc(func(w http.ResponseWriter, r *http.Request) {
		if r.URL.Query().Get("watch") != "" {
			w.Header().Set("Content-Type", "application/json")
			w.WriteHeader(200)
			if f, ok := w.(http.Flusher); ok {
				f.Flush()
			}
			<-r.Context().Done()
			return
		}
		w.Header().Set("Content-Type", "application/json")
		fmt.Fprint(w, `{"kind":"PodList","apiVersion":"v1","metadata":{"resourceVersion":"1"},"items":[]}`)
	}))
	defer srv.Close()
	kc := fmt.Sprintf("apiVersion: v1\nkind: Config\nclusters:\n- name: c\n  cluster:\n    server: %s\ncontexts:\n- name: x\n  context:\n    cluster: c\n    user: u\ncurrent-context: x\nusers:\n- name: u\n  user: {}\n", srv.URL)
	path := "kubeconfig-c13.yaml"
	if err := os.WriteFile(path, []byte(kc), 0o600); err != nil {
		panic(err)
	}
	defer os.Remove(path)
	type vc struct {
		ann, label *string // nil: key absent from the configuration (the default applies)
	}
	str := func(s string) *string { return &s }
	custom := "^(?P<tag>app)$"
	var cases []vc
	for _, a := range []*string{nil, str(""), str(k8s.DefaultAnnotationTagRegex), str("^oth(?P<tag>.+)$")} {
		for _, l := range []*string{nil, str(""), str(custom), str("^team/(?P<tag>.*)$|^app$")} {
			cases = append(cases, vc{a, l})
		}
	}
	for _, c := range cases {
		res.Evaluations++
		m := map[string]any{"kubeconfig-path": path, "watch-cluster": true}
		eff := rcfg{k8s.DefaultAnnotationTagRegex, k8s.DefaultLabelTagRegex}
		if c.ann != nil {
			m["annotation-tag-regex"], eff.Ann = *c.ann, *c.ann
		}
		if c.label != nil {
			m["label-tag-regex"], eff.Label = *c.label, *c.label
		}
		v := viper.New()
		v.Set("k8s", m)
		ci, err := k8s.NewProviderFromViper(v, fx.Quiet(), "verif")
		desc := fmt.Sprintf("configuration k8s=%v (effective regexes %+v)", m, eff)
		if err != nil {
			res.Violate("from-config construct", desc+": "+err.Error(), map[string]any{"viper": true})
			continue
		}
		w := &world{p: ci.(*k8s.Provider), pods: [2]int{-1, -1}, c: eff}
		for _, o := range []op{{0, 1}, {0, 99}, {1, 3}, {1, 99}} { // p0 Running at X (meta 0), lookup X, p1 Running at Y (meta 0), lookup Y
			if msg := w.apply(o); msg != "" {
				res.Violate("from-config lookup", desc+": "+msg, map[string]any{"viper": true})
				break
			}
		}
	}
}

func allOps() []op {
	var ops []op
	for p := 0; p < 2; p++ {
		for k := range variants {
			ops = append(ops, op{p, k})
		}
		ops = append(ops, op{p, 97}, op{p, 98}, op{p, 99})
	}
	return ops
}

func replaySeq(c rcfg, seq []op) (*world, string) {
	w := newWorld(c)
	for _, o := range seq {
		if m := w.apply(o); m != "" {
			return w, m
		}
	}
	return w, ""
}

func explore(ci int, root []op, maxDepth int, states, nontrivial map[string]struct{}) bool {
	c := rcfgs[ci]
	ops := allOps()
	seen := map[string]bool{}
	frontier := [][]op{root}
	complete := true
	for d := 0; len(frontier) > 0; d++ {
		if d >= maxDepth {
			complete = false
			break
		}
		var next [][]op
		for _, seq := range frontier {
			base, m := replaySeq(c, seq)
			if m != "" {
				continue
			}
			for _, o := range ops {
				if !base.enabled(o) {
					continue
				}
				w, _ := replaySeq(c, seq)
				msg := w.apply(o)
				res.Transitions++
				res.Evaluations++
				ns := append(append([]op{}, seq...), o)
				if msg != "" {
					var names []string
					for _, x := range ns {
						names = append(names, x.String())
					}
					res.Violate("lookup "+strings.SplitN(msg, " ", 2)[0], fmt.Sprintf("regex cfg %+v, history %v: %s", c, names, msg), map[string]any{"cfg": ci, "seq": ns})
					continue
				}
				k := w.canon()
				ck := fmt.Sprint(ci, k)
				states[ck] = struct{}{}
				if strings.Contains(k, "=") {
					nontrivial[ck] = struct{}{}
				}
				if !seen[k] {
					seen[k] = true
					next = append(next, ns)
				}
			}
		}
		frontier = next
	}
	return complete
}

func main() {
	res = vrt.Init()
	if *vrt.ReplayPath != "" {
		var rp struct {
			Cfg int
			Seq []op
		}
		var vp struct {
			Viper bool
			Async []int
		}
		vrt.LoadReplay(&rp)
		vrt.LoadReplay(&vp)
		msg := ""
		if vp.Async != nil {
			msg, _ = asyncRun(rcfgs[2], vp.Async)
			fmt.Println(asyncSeqNames(vp.Async))
		} else if vp.Viper {
			viperChecks()
			for _, v := range res.Violations {
				msg += v.Msg + "\n"
			}
		} else {
			_, msg = replaySeq(rcfgs[rp.Cfg], rp.Seq)
		}
		fmt.Println(rp.Seq, msg)
		if msg != "" {
			fmt.Printf("VIOLATION property=C13 replay=%s\n", *vrt.ReplayPath)
			os.Exit(1)
		}
		return
	}
	maxDepth := 6
	if vrt.Thorough() {
		maxDepth = 64
	}
	states := map[string]struct{}{}
	nontrivial := map[string]struct{}{}
	var i int64
	fix := true
	for ci := range rcfgs {
		// shard on the first operation (every history starts with setting a pod or a lookup)
		for _, o := range allOps() {
			i++
			if !vrt.Mine(i) {
				continue
			}
			w := newWorld(rcfgs[ci])
			if !w.enabled(o) {
				continue
			}
			if !explore(ci, []op{o}, maxDepth, states, nontrivial) {
				fix = false
			}
		}
	}
	if *vrt.Shard == 0 {
		viperChecks()
	}
	asyncFamily()
	res.Info["fixpoint_reached"] = fix
	res.Info["max_depth"] = maxDepth
	res.Sample(map[string]any{"regex": rcfgs[2], "history": []string{"set(p0,Running X meta0)", "lookup(X)", "set(p0,Running X meta1)", "lookup(X)", "delete(p0)", "set(p1,Running X meta0)", "lookup(X)"}})
	res.States = int64(len(states))
	res.DistinctNontrivial = int64(len(nontrivial))
	res.Traces = res.Evaluations
	res.Finish()
}
