package main

// The asynchronous lookup interface (IpSink in, InfoSource out, served by Provider.Run) driven for real:
// Run is a goroutine of its own, every harness operation is applied when the whole process is quiescent
// (vsched.RunFree / Quiesce: every other goroutine is blocked), so each operation sequence is one
// deterministic schedule. Every sequence over {request X, read one answer, pod p0 := Running at X with
// label set 0 / 1, delete p0} up to a depth is run; every request must be answered exactly once, with
// the identity and tags of the pod that held X when the request was made.

import (
	"context"
	"fmt"
	"sort"
	"strings"

	"github.com/atlassian/gostatsd"
	"github.com/atlassian/gostatsd/internal/verif/vrt"
	"github.com/atlassian/gostatsd/internal/verif/vsched"
)

var asyncOps = []string{"request(X)", "read", "set(p0,Running@X,meta0)", "set(p0,Running@X,meta1)", "delete(p0)"}

func answerString(inst *gostatsd.Instance) string {
	if inst == nil {
		return "nothing"
	}
	t := append([]string{}, inst.Tags...)
	sort.Strings(t)
	return fmt.Sprintf("%s %v", inst.ID, t)
}

func asyncSeqNames(seq []int) []string {
	var o []string
	for _, s := range seq {
		o = append(o, asyncOps[s])
	}
	return o
}

// asyncRun applies seq and returns a violation message ("" if none) and whether the sequence was inside the domain.
func asyncRun(c rcfg, seq []int) (msg string, ok bool) {
	ok = true
	out := vsched.RunFree(func() {
		w := newWorld(c)
		ctx, cancel := context.WithCancel(context.Background())
		defer cancel()
		vsched.GoNamed("provider.Run", func() { w.p.Run(ctx) })
		vsched.Quiesce("started") // the informers have listed the (empty) cluster
		var want, got []string   // expected answers (one per request, as of the request) / answers read
		outstanding := 0
		read := func(when string) bool {
			select {
			case info := <-w.p.InfoSource():
				outstanding--
				if info.IP != "X" {
					msg = fmt.Sprintf("%s: answer for IP %q, only X was asked for", when, info.IP)
					return false
				}
				got = append(got, answerString(info.Instance))
			default:
				msg = fmt.Sprintf("%s: %d requests are unanswered but no answer is on offer", when, outstanding)
				return false
			}
			vsched.Quiesce("read")
			return true
		}
		for i, o := range seq {
			switch o {
			case 0:
				id, tags, found := w.want("X")
				if found {
					want = append(want, fmt.Sprintf("%s %v", id, tags))
				} else {
					want = append(want, "nothing")
				}
				w.p.IpSink() <- "X"
				outstanding++
				vsched.Quiesce("requested")
			case 1:
				if outstanding == 0 {
					ok = false
					return
				}
				if !read(fmt.Sprintf("step %d", i)) {
					return
				}
			case 2, 3:
				k := map[int]int{2: 1, 3: 7}[o] // variants: Running at X with meta 0 / meta 1
				if !w.enabled(op{0, k}) {
					ok = false
					return
				}
				w.apply(op{0, k})
			case 4:
				if !w.enabled(op{0, 98}) {
					ok = false
					return
				}
				w.apply(op{0, 98})
			}
		}
		for outstanding > 0 {
			if !read("at the end") {
				return
			}
		}
		sort.Strings(want)
		sort.Strings(got)
		if strings.Join(want, ";") != strings.Join(got, ";") {
			msg = fmt.Sprintf("answers read %v, want (one per request, the pod holding X when it was made) %v", got, want)
		}
	})
	if out.Kind == "free-timeout" {
		// the process did not come to rest in time (an overloaded machine): that says nothing about the property
		res.Counters["async_sequences_inconclusive"]++
		res.Exhaustive = false
		return "", true
	}
	if out.Kind != "ok" && msg == "" {
		msg = out.Kind + ": " + out.Detail
	}
	return
}

func asyncFamily() {
	depth := 5
	if vrt.Thorough() {
		depth = 7
	}
	if v := variants[1]; v.IP != "X" || v.Meta != 0 || !indexable(v) {
		panic("variant table changed")
	}
	if v := variants[7]; v.IP != "X" || v.Meta != 1 || !indexable(v) {
		panic("variant table changed")
	}
	c := rcfgs[2]
	var i int64
	var rec func(seq []int)
	rec = func(seq []int) {
		if vrt.Stop() {
			return
		}
		if len(seq) > 0 {
			i++
			if vrt.Mine(i) {
				msg, ok := asyncRun(c, seq)
				if !ok {
					return // outside the domain: so is every extension
				}
				res.Evaluations++
				res.Transitions += int64(len(seq))
				if msg != "" {
					res.Violate("async-lookup", fmt.Sprintf("IpSink/InfoSource, sequence %v: %s", asyncSeqNames(seq), msg), map[string]any{"async": seq})
					return
				}
			}
		}
		if len(seq) == depth {
			return
		}
		for o := range asyncOps {
			rec(append(append([]int{}, seq...), o))
		}
	}
	rec(nil)
}
