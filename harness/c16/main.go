// C16: each backend flush request completes exactly once under any transport fault.
package main

import (
	"context"
	"errors"
	"fmt"
	"github.com/atlassian/gostatsd/pkg/backends/sender"
	"math"
	"net/http"
	"os"
	"sort"
	"strings"
	"sync"
	"time"

	"github.com/cenkalti/backoff"
	"github.com/tilinna/clock"

	"github.com/atlassian/gostatsd"
	"github.com/atlassian/gostatsd/internal/verif/lib/bk"
	"github.com/atlassian/gostatsd/internal/verif/lib/fx"
	"github.com/atlassian/gostatsd/internal/verif/vrt"
	"github.com/atlassian/gostatsd/internal/verif/vsched"
)

type cfg struct {
	Kind     string
	Series   int // number of counters in the flushed map (0 = empty map)
	Batch    int // metrics per batch
	Requests int // consecutive flush requests
	Failures int // fault budget
	Cancel   bool
	Elapsed  time.Duration
	MaxReq   int
	// Always: every attempt meets the same fault until the backend gives up (1: 503, 2: transport error,
	// 3: 429 with Retry-After) - the end of the retry window must still complete the request, with an error
	Always int
	// Parallel: the flush requests are issued together (one per aggregator of one flush) instead of one after the other
	Parallel bool `json:",omitempty"`
	// Concurrent: every flush request is issued by a thread of its own, the way the aggregators of one flush call the backend
	// side by side (the -race pass of this configuration finds state the backend shares between such calls)
	Concurrent bool `json:",omitempty"`
	// LongNames: request q sends counters named q<q>c<i> padded to 800 characters, so that a statsd relay datagram
	// overflows after every line (the relay then hands the datagram over in the middle of its flush); everything the
	// socket received is taken apart afterwards: each of those names exactly once
	LongNames bool `json:",omitempty"`
	// LateCancel: the cancellation may also come after the first LateCancel clock steps (retry / reconnect timers firing)
	LateCancel int `json:",omitempty"`
	// MaxStreams: the sender recycles its connection after that many streams (the constant is 100; 0 leaves it alone)
	MaxStreams int `json:",omitempty"`
	// ZeroWindow: the retry window is configured as 0. A backend may refuse that at start-up; one that accepts it must still
	// complete every request although the upstream refuses every attempt
	ZeroWindow bool `json:",omitempty"`
	// Stall: a write may also meet a peer that has stopped reading: it ends with a timeout when the connection's write
	// deadline passes - and never, if the sender set none on that connection
	Stall bool `json:",omitempty"`
	// Hist: the flushed map also holds a histogram timer (visited after the counters, i.e. after a batch roll-over)
	Hist bool `json:",omitempty"`
}

func (c cfg) String() string {
	if c.Always != 0 {
		return fmt.Sprintf("%s-s%d-b%d-q%d-always%d-el%v-r%d", c.Kind, c.Series, c.Batch, c.Requests, c.Always, c.Elapsed, c.MaxReq) + c.suffix()
	}
	if c.Parallel {
		return fmt.Sprintf("%s-s%d-b%d-q%d-f%d-c%v-el%v-r%d-parallel", c.Kind, c.Series, c.Batch, c.Requests, c.Failures, c.Cancel, c.Elapsed, c.MaxReq)
	}
	return fmt.Sprintf("%s-s%d-b%d-q%d-f%d-c%v-el%v-r%d", c.Kind, c.Series, c.Batch, c.Requests, c.Failures, c.Cancel, c.Elapsed, c.MaxReq) + map[bool]string{true: "-hist"}[c.Hist] + map[bool]string{true: "-stall"}[c.Stall] + c.suffix()
}

// cancelSegments: in how many of the stretches between clock steps (the first ones) the cancellation may come
func (c cfg) cancelSegments() int {
	if c.LateCancel > 0 {
		return c.LateCancel + 1
	}
	return 1
}

func (c cfg) suffix() string {
	s := map[bool]string{true: "-window0"}[c.ZeroWindow]
	if c.LateCancel > 0 {
		s += fmt.Sprintf("-latecancel%d", c.LateCancel)
	}
	if c.MaxStreams > 0 {
		s += fmt.Sprintf("-maxstreams%d", c.MaxStreams)
	}
	if c.Concurrent {
		s += "-concurrent"
	}
	if c.LongNames {
		s += "-longnames"
	}
	return s
}

type cbRec struct {
	req  int
	errs []error
}

type run struct {
	c           cfg
	b           *bk.Built
	cbs         []cbRec
	failsLeft   int
	faults      []string
	issuedBy    []bool
	issued      int
	cancelled   bool
	refused     bool
	overflowBad string
	viol        string
	violKey     string
	mock        *clock.Mock
	bodyFinal   map[string]int // last outcome per HTTP body
	lostWrite   bool
	cwFailed    bool
}

func (r *run) fail(k, m string) {
	if r.viol == "" {
		r.violKey, r.viol = k, m
	}
}

func shortNames(m map[string]int) []string {
	var o []string
	for k, n := range m {
		if len(k) > 12 {
			k = k[:12]
		}
		o = append(o, fmt.Sprintf("%s x%d", k, n))
	}
	sort.Strings(o)
	return o
}

func (r *run) countIssued() int {
	r.issued = 0
	for _, b := range r.issuedBy {
		if b {
			r.issued++
		}
	}
	return r.issued
}

func (r *run) fault(n int, label string) int {
	if r.failsLeft <= 0 {
		return 0
	}
	o := vsched.Choose(n, label)
	if o != 0 {
		r.failsLeft--
		r.faults = append(r.faults, fmt.Sprintf("%s=%d", label, o))
	}
	return o
}

func mkMapHist(n int) *gostatsd.MetricMap {
	mm := mkMap(n)
	mm.Timers["th"] = map[string]gostatsd.Timer{"gsd_histogram:1_5,s:h": {Tags: gostatsd.Tags{"gsd_histogram:1_5"}, Source: "h", Timestamp: 5, Values: []float64{0.5, 3},
		Histogram: map[gostatsd.HistogramThreshold]int{1: 1, 5: 2, gostatsd.HistogramThreshold(math.Inf(1)): 2}}}
	return mm
}

func longName(q, i int) string {
	return fmt.Sprintf("q%dc%d.", q, i) + strings.Repeat("x", 800)
}

func mkMapLong(q, n int) *gostatsd.MetricMap {
	mm := gostatsd.NewMetricMap(false)
	for i := 0; i < n; i++ {
		mm.Receive(&gostatsd.Metric{Name: longName(q, i), Type: gostatsd.COUNTER, Value: float64(i + 1), Rate: 1, Source: "h", Tags: gostatsd.Tags{"k:v"}, Timestamp: 5})
	}
	return mm
}

func mkMap(n int) *gostatsd.MetricMap {
	mm := gostatsd.NewMetricMap(false)
	for i := 0; i < n; i++ {
		mm.Receive(&gostatsd.Metric{Name: fmt.Sprintf("c%d", i), Type: gostatsd.COUNTER, Value: float64(i + 1), Rate: 1, Source: "h", Tags: gostatsd.Tags{"k:v"}, Timestamp: 5})
	}
	return mm
}

func body(c cfg, r *run) func(*vsched.Exec) {
	return func(x *vsched.Exec) {
		*r = run{c: c, failsLeft: c.Failures, bodyFinal: map[string]int{}}
		base, mock := fx.NewClock(context.Background())
		r.mock = mock
		backoff.VerifNow = func() time.Time { return mock.Now() } // fixes the backoff jitter (the backends set b.Clock themselves)
		ctx, cancel := context.WithCancel(base)
		if !sender.VerifSetMaxStreams(map[bool]int{true: c.MaxStreams, false: 100}[c.MaxStreams > 0]) && c.MaxStreams > 0 {
			r.refused = true // the limit is not where it used to be in this tree: the configuration cannot be set up
			return
		}
		b, err := bk.New(c.Kind, bk.Opts{BatchSize: c.Batch, MaxRequests: c.MaxReq, MaxElapsed: c.Elapsed, MaxRetries: 2, ZeroElapsed: c.ZeroWindow})
		if err != nil {
			if c.ZeroWindow {
				r.refused = true // a retry window of 0 is refused at start-up: nothing to run
				return
			}
			panic(err)
		}
		r.b = b
		b.Env.RT.Decide = func(q *bk.Request) bk.HTTPAnswer {
			o := 0
			if c.Always != 0 {
				o = 1
				if c.Always == 2 {
					o = 2
				}
				r.faults = append(r.faults, fmt.Sprintf("http=%d", c.Always))
				if c.Always == 3 {
					r.bodyFinal[string(q.Body)] = o
					return bk.HTTPAnswer{Status: 429, Header: http.Header{"Retry-After": []string{"1"}}}
				}
			} else {
				o = r.fault(3, "http")
			}
			r.bodyFinal[string(q.Body)] = o
			switch o {
			case 1:
				if strings.HasPrefix(c.Kind, "newrelic") && len(r.faults)%2 == 0 {
					return bk.HTTPAnswer{Status: 429, Header: http.Header{"Retry-After": []string{"1"}}}
				}
				if strings.HasPrefix(c.Kind, "otlp") && (c.Always != 0 || len(r.faults)%2 == 1) {
					return bk.HTTPAnswer{Status: 503} // an error status with an empty body (what a proxy sends)
				}
				if len(r.faults)%3 == 2 {
					// every third refusal is a 304, as a cache or proxy in front of the service may answer (Go's client hands a
					// 3xx without Location back as it is): not a delivery either
					return bk.HTTPAnswer{Status: 304}
				}
				return bk.HTTPAnswer{Status: 503, Body: []byte("busy")}
			case 2:
				return bk.HTTPAnswer{Err: errors.New("connection reset")}
			}
			return bk.HTTPAnswer{Status: 200}
		}
		b.Env.Net.DialErr = func(n int) error {
			if c.Always == 4 {
				r.faults = append(r.faults, "dial=refused")
				return bk.ErrRefused // the peer is down for good
			}
			if r.fault(2, "dial") == 1 {
				return bk.ErrRefused
			}
			return nil
		}
		stalled := map[int]bool{}
		if c.Stall {
			never := make(chan struct{})
			b.Env.Net.Stall = func(n int) bool {
				if r.fault(3, "write") == 2 {
					r.faults[len(r.faults)-1] = "write=stall"
					stalled[n] = true
					r.lostWrite = true
					return true
				}
				if len(r.faults) > 0 && r.faults[len(r.faults)-1] == "write=1" {
					stalled[-n-1] = true // decided: broken pipe
				}
				return false
			}
			b.Env.Net.Wait = func(until time.Time) {
				if until.IsZero() {
					r.faults = append(r.faults, "no-write-deadline")
					vsched.Recv(never)
				}
				if d := until.Sub(mock.Now()); d > 0 {
					vsched.Recv(vsched.EnvGet("clock").(clock.Clock).NewTimer(d).C)
				}
			}
		}
		b.Env.Net.WriteErr = func(n int, p []byte) error {
			if c.Stall {
				if stalled[-n-1] {
					r.lostWrite = true
					return errors.New("broken pipe")
				}
				return nil
			}
			if r.fault(2, "write") == 1 {
				r.lostWrite = true
				return errors.New("broken pipe")
			}
			return nil
		}
		b.Env.CW.Err = func(n int) error {
			if r.fault(2, "cloudwatch") == 1 {
				r.cwFailed = true
				return errors.New("throttled")
			}
			return nil
		}
		if b.Run != nil {
			vsched.GoNamed("backend.Run", func() { b.Run(ctx) })
		}
		r.issuedBy = make([]bool, c.Requests)
		done := make(chan int, c.Requests+4)
		overflow := c.Always == 4 && c.Cancel
		var lastCancel context.CancelFunc
		phase := 0
		cbObj := new(int)
		var cbMu sync.Mutex
		if c.Parallel {
			// the backend has been running for a while (and may have failed to connect once already) when the
			// first flush comes
			vsched.Quiesce("backend-started")
			if mock.Len() > 0 {
				vsched.ClockOp(true, "advance-next")
				mock.AddNext()
				vsched.Quiesce("backend-retried")
			}
		}
		issueFn := func(from, to int) {
			for q := from; q < to; q++ {
				q := q
				// (no lock, no atomic here: a synchronisation between the issuing threads ahead of their calls would order
				// the calls for the race detector of the free-running pass and hide what they share)
				r.issuedBy[q] = true
				mm := mkMap(c.Series)
				if c.Hist {
					mm = mkMapHist(c.Series)
				}
				if c.LongNames {
					mm = mkMapLong(q, c.Series)
				}
				qctx := ctx
				if overflow && q == c.Requests-1 {
					// a request with a context of its own (a per-flush deadline): only this one is abandoned first
					qctx, lastCancel = context.WithCancel(ctx)
				}
				b.Backend.SendMetricsAsync(qctx, mm, func(errs []error) {
					if vsched.Aborting() {
						return // deferred calls unwinding during the harness' own teardown are not part of the execution
					}
					if overflow {
						// a dozen completions handed over a channel would interleave with their receipts in millions of
						// ways that say nothing about the backend: here a completion is one visible step
						vsched.Access(cbObj, true, "callback")
						cbMu.Lock()
						r.cbs = append(r.cbs, cbRec{q, append([]error{}, errs...)})
						cbMu.Unlock()
						return
					}
					cbMu.Lock()
					r.cbs = append(r.cbs, cbRec{q, append([]error{}, errs...)})
					cbMu.Unlock()
					vsched.Send(done, q)
				})
				if !c.Parallel {
					vsched.Recv(done) // flushData waits for the callbacks of one flush before the next one
				}
			}
			if c.Parallel && !overflow {
				for q := from; q < to; q++ {
					vsched.Recv(done) // ... but the aggregators of one flush call the backend side by side
				}
			}
		}
		if c.Concurrent {
			// in the free-running -race pass the calls start at the same instant (with several processors), so that they
			// really overlap: one call finishing before the other begins is ordered through the buffer pool they share
			start := make(chan struct{})
			for q := 0; q < c.Requests; q++ {
				q := q
				vsched.GoNamed(fmt.Sprint("aggregator", q), func() {
					if vsched.Free() {
						<-start
					}
					issueFn(q, q+1)
				})
			}
			if vsched.Free() {
				close(start)
			}
		} else {
			vsched.GoNamed("flusher", func() { issueFn(0, c.Requests) })
		}
		segObj := new(int)
		segment := 0
		if c.Cancel && c.Always != 4 {
			vsched.GoNamed("canceller", func() {
				// time passes only when nothing else can move, so a cancellation that is to meet a retry or reconnect timer
				// has to wait for its turn: it comes at any point of the stretch between two clock steps that it picks
				if seg := vsched.Choose(c.cancelSegments(), "cancel-in-stretch"); seg > 0 && !vsched.Free() { // (a free run has no stretches)
					vsched.SyncOp(segObj, false, "wait-for-stretch", func() bool { return segment >= seg })
				}
				r.cancelled = true
				vsched.Cancel(cancel)
			})
		}
		// time passes only when nothing else can move: retry timers, the sender's reconnect timer
		steps := 14
		if c.Always != 0 {
			steps = 60
		}
		for step := 0; step < steps; step++ {
			vsched.Quiesce("idle")
			if overflow && phase == 0 {
				// everything that fits is queued, one request is still waiting for room: that request is cancelled
				phase, r.cancelled = 1, true
				if lastCancel == nil {
					r.overflowBad = fmt.Sprintf("only %d of %d requests were issued at quiescence", r.countIssued(), c.Requests)
					break
				}
				vsched.Cancel(lastCancel)
				continue
			}
			if overflow && phase == 1 {
				// ... and must be completed now, whatever happens to the ones in front of it; then everything is shut down
				phase = 2
				cbMu.Lock()
				if len(r.cbs) != 1 || r.cbs[0].req != c.Requests-1 {
					r.overflowBad = fmt.Sprintf("request %d was cancelled while it waited for room in the sender's queue; completions so far: %v", c.Requests-1, r.cbs)
				}
				cbMu.Unlock()
				vsched.Cancel(cancel)
				continue
			}
			if len(r.cbs) >= c.Requests || mock.Len() == 0 {
				break
			}
			vsched.ClockOp(true, "advance-next")
			mock.AddNext()
			vsched.Access(segObj, true, "next-stretch")
			segment++
		}
		vsched.Quiesce("end")
		_ = cancel
	}
}

func nonNil(errs []error) int {
	n := 0
	for _, e := range errs {
		if e != nil {
			n++
		}
	}
	return n
}

func check(c cfg, r *run, outcomes map[string]struct{}) func(*vsched.Exec, vsched.Outcome) (string, string) {
	return func(x *vsched.Exec, o vsched.Outcome) (string, string) {
		if o.Kind == "panic" {
			return "panic " + site(o.Stack), fmt.Sprintf("%s: a goroutine panicked: %s (faults %v, cancelled %v)\n%s", c.Kind, o.Detail, r.faults, r.cancelled, o.Stack)
		}
		if o.Kind != "ok" {
			return o.Kind, o.Kind + ": " + o.Detail
		}
		if r.viol != "" {
			return r.violKey, r.viol
		}
		if r.refused {
			x.Note("retry-window-0-refused-at-start-up")
			return "", ""
		}
		if r.overflowBad != "" {
			return "cancelled-request-not-completed", c.Kind + ": " + r.overflowBad
		}
		per := map[int]int{}
		for _, cb := range r.cbs {
			per[cb.req]++
		}
		r.countIssued()
		for q := 0; q < len(r.issuedBy); q++ {
			if !r.issuedBy[q] {
				continue
			}
			if per[q] > 1 {
				return "callback-twice", fmt.Sprintf("%s: flush request %d got %d completion callbacks (faults %v, cancelled %v)", c.Kind, q, per[q], r.faults, r.cancelled)
			}
			if per[q] == 0 {
				return "callback-missing", fmt.Sprintf("%s: flush request %d was never completed (faults %v, cancelled %v, timers pending %d)", c.Kind, q, r.faults, r.cancelled, r.mock.Len())
			}
		}
		if c.LongNames && len(r.faults) == 0 && !r.cancelled {
			seen := map[string]int{}
			for _, w := range r.b.Env.Net.Writes {
				for _, ln := range strings.Split(string(w), "\n") {
					if ln == "" {
						continue
					}
					i := strings.IndexByte(ln, ':')
					if i < 0 {
						return "relay-line-malformed", fmt.Sprintf("%s: the socket received a line without a value separator: %.60q...", c.Kind, ln)
					}
					seen[ln[:i]]++
				}
			}
			for q := 0; q < c.Requests; q++ {
				for i := 0; i < c.Series; i++ {
					if n := seen[longName(q, i)]; n != 1 {
						return "relay-content", fmt.Sprintf("%s: counter q%dc%d of flush request %d was written %d times (all names seen, shortened: %v)", c.Kind, q, i, q, n, shortNames(seen))
					}
				}
			}
		}
		// socket backends: a request completed without an error was written to the peer - there are at least as many accepted
		// writes as such completions (every request of these configurations has something to send)
		if (strings.HasPrefix(c.Kind, "graphite") || strings.HasPrefix(c.Kind, "statsdaemon")) && c.Series > 0 && r.b != nil && !r.cancelled { // (a cancelled request may be completed without an error: cancellation is not a transport failure)
			okCompletions, okWrites := 0, 0
			for _, cb := range r.cbs {
				if nonNil(cb.errs) == 0 {
					okCompletions++
				}
			}
			for _, ok := range r.b.Env.Net.WriteOK {
				if ok {
					okWrites++
				}
			}
			if okCompletions > okWrites {
				return "completed-without-sending", fmt.Sprintf("%s: %d flush requests were completed without an error, the peer accepted %d writes (faults %v, cancelled %v)", c.Kind, okCompletions, okWrites, r.faults, r.cancelled)
			}
		}
		if r.issued < c.Requests {
			return "flusher-stuck", fmt.Sprintf("%s: only %d of %d flush requests were issued", c.Kind, r.issued, c.Requests)
		}
		// an error must be carried when a transport failure prevented delivery
		failedFinal := false
		for _, o := range r.bodyFinal {
			if o != 0 {
				failedFinal = true
			}
		}
		if (failedFinal || r.lostWrite || r.cwFailed) && !r.cancelled {
			any := false
			for _, cb := range r.cbs {
				if nonNil(cb.errs) > 0 {
					any = true
				}
			}
			if !any {
				return "failure-not-reported", fmt.Sprintf("%s: a transport failure prevented delivery (faults %v) but no callback carried an error", c.Kind, r.faults)
			}
		}
		if len(r.faults) > 0 || r.cancelled {
			var sig strings.Builder
			for _, cb := range r.cbs {
				fmt.Fprintf(&sig, "%d:%d;", cb.req, nonNil(cb.errs))
			}
			outcomes[c.String()+fmt.Sprint(r.faults, r.cancelled)+sig.String()] = struct{}{}
		}
		if len(r.faults) > 0 {
			x.Note("fault-injected")
		}
		if r.cancelled {
			x.Note("cancelled")
		}
		return "", ""
	}
}

func site(stack string) string {
	for _, l := range strings.Split(stack, "\n") {
		l = strings.TrimSpace(l)
		if strings.HasPrefix(l, "/repo/") && !strings.Contains(l, "/internal/verif/") {
			return strings.Fields(l)[0]
		}
	}
	return ""
}

func configs() []cfg {
	var cs []cfg
	http := []string{"datadog", "influxdb1", "newrelic-infra", "otlp-gauge"}
	sock := []string{"graphite-tags", "statsdaemon-udp", "statsdaemon-tcp"}
	for _, k := range http {
		if k == "otlp-gauge" { // one counter = two OTLP metrics; keep the number of batch goroutines at 2-3
			cs = append(cs, cfg{Kind: k, Series: 1, Batch: 1, Requests: 1, Failures: 1, Elapsed: 3 * time.Second, MaxReq: 1})
			cs = append(cs, cfg{Kind: k, Series: 1, Batch: 2, Requests: 2, Failures: 1, Elapsed: 3 * time.Second, MaxReq: 2})
			cs = append(cs, cfg{Kind: k, Series: 1, Batch: 2, Requests: 1, Failures: 0, Cancel: true, Elapsed: 3 * time.Second, MaxReq: 1})
			continue
		}
		cs = append(cs, cfg{Kind: k, Series: 2, Batch: 1, Requests: 1, Failures: 1, Cancel: false, Elapsed: 3 * time.Second, MaxReq: 1})
		cs = append(cs, cfg{Kind: k, Series: 1, Batch: 1, Requests: 2, Failures: 2, Cancel: false, Elapsed: -1, MaxReq: 2})
		cs = append(cs, cfg{Kind: k, Series: 2, Batch: 1, Requests: 1, Failures: 0, Cancel: true, Elapsed: 3 * time.Second, MaxReq: 1})
		cs = append(cs, cfg{Kind: k, Series: 0, Batch: 1, Requests: 1, Failures: 1, Cancel: true, Elapsed: 3 * time.Second, MaxReq: 1})
		// cancellation that may also come after the first retry timer has fired
		cs = append(cs, cfg{Kind: k, Series: 1, Batch: 1, Requests: 1, Failures: 2, Cancel: true, LateCancel: 2, Elapsed: 3 * time.Second, MaxReq: 1})
		if vrt.Thorough() {
			cs = append(cs, cfg{Kind: k, Series: 3, Batch: 1, Requests: 1, Failures: 2, Cancel: true, Elapsed: 3 * time.Second, MaxReq: 2})
			cs = append(cs, cfg{Kind: k, Series: 1, Batch: 1, Requests: 2, Failures: 6, Cancel: false, Elapsed: 3 * time.Second, MaxReq: 1})
		}
	}
	for _, k := range http {
		for a := 1; a <= 3; a++ {
			cs = append(cs, cfg{Kind: k, Series: 1, Batch: 2, Requests: 1, Always: a, Elapsed: 3 * time.Second, MaxReq: 1})
		}
	}
	for _, k := range http {
		cs = append(cs, cfg{Kind: k, Series: 1, Batch: 2, Requests: 1, Always: 1, MaxReq: 1, ZeroWindow: true})
	}
	// cancellation while a batch roll-over waits for a request buffer, with a histogram timer still to come
	cs = append(cs, cfg{Kind: "influxdb1", Series: 1, Batch: 1, Requests: 1, Failures: 0, Cancel: true, Elapsed: 3 * time.Second, MaxReq: 1, Hist: true})
	for _, k := range sock {
		cs = append(cs, cfg{Kind: k, Series: 1, Requests: 2, Failures: 1})
		cs = append(cs, cfg{Kind: k, Series: 1, Requests: 1, Failures: 2})
		cs = append(cs, cfg{Kind: k, Series: 1, Requests: 1, Failures: 1, Cancel: true})
		// the connection is recycled after every stream (a small value of the sender's streams-per-connection limit), two
		// refused connections, and a cancellation that may come after the reconnect timers
		cs = append(cs, cfg{Kind: k, Series: 1, Requests: 2, Failures: 2, Cancel: true, LateCancel: 3, MaxStreams: 1})
		if vrt.Thorough() {
			cs = append(cs, cfg{Kind: k, Series: 2, Requests: 2, Failures: 2, Cancel: true})
		}
	}
	// the aggregators of one flush call the backend at the same time (two requests, each from a thread of its own)
	conc := []string{"graphite-tags", "statsdaemon-udp", "statsdaemon-tcp", "datadog", "influxdb1", "newrelic-infra", "cloudwatch", "stdout"}
	if vrt.Thorough() {
		conc = append(conc, "otlp-gauge") // several hundred thousand interleavings
	}
	for _, k := range conc {
		cs = append(cs, cfg{Kind: k, Series: 1, Batch: 2, Requests: 2, Elapsed: 3 * time.Second, MaxReq: 2, Concurrent: true})
	}
	for _, k := range []string{"statsdaemon-udp", "statsdaemon-tcp"} {
		cs = append(cs, cfg{Kind: k, Series: 2, Requests: 2, Concurrent: true, LongNames: true})
	}
	// a peer that stops reading (write deadline), after a refused connection during which the request was taken up
	cs = append(cs, cfg{Kind: "graphite-tags", Series: 1, Requests: 1, Failures: 2, Stall: true}, cfg{Kind: "statsdaemon-tcp", Series: 1, Requests: 2, Failures: 2, Stall: true})
	// two requests of one flush in flight together, three transport faults (refused, write error, refused again)
	cs = append(cs, cfg{Kind: "statsdaemon-tcp", Series: 1, Requests: 2, Failures: 3, Parallel: true}, cfg{Kind: "graphite-tags", Series: 1, Requests: 2, Failures: 3, Parallel: true})
	// more flush requests than the sender's queue holds (one held, ten queued, the twelfth waiting for room) while the
	// peer refuses connections, then cancellation: the request that did not fit must be completed as well
	cs = append(cs, cfg{Kind: "graphite-tags", Series: 1, Requests: 12, Always: 4, Cancel: true, Parallel: true})
	if vrt.Thorough() {
		cs = append(cs, cfg{Kind: "graphite-tags", Series: 1, Requests: 13, Always: 4, Cancel: true, Parallel: true}, cfg{Kind: "statsdaemon-tcp", Series: 1, Requests: 12, Always: 4, Cancel: true, Parallel: true})
	}
	// a stream of several datagrams: a write error in the middle, reconnect, and a second write error
	cs = append(cs, cfg{Kind: "statsdaemon-udp", Series: 170, Requests: 1, Failures: 2})
	for _, k := range []string{"cloudwatch", "stdout", "null"} {
		cs = append(cs, cfg{Kind: k, Series: 2, Requests: 2, Failures: 1, Cancel: true})
	}
	cs = append(cs, cfg{Kind: "cloudwatch", Series: 25, Requests: 1, Failures: 2})
	return cs
}

type replay struct {
	Cfg     cfg
	Choices []vsched.TransKey
	Net     *netCase `json:"net,omitempty"`
}

func main() {
	res := vrt.Init()
	if *vrt.ReplayPath != "" {
		var rp replay
		vrt.LoadReplay(&rp)
		if rp.Net != nil {
			checkNetRelay(res, *rp.Net)
			res.Finish()
			return
		}
		r := &run{}
		o, key, msg, trace := vsched.Replay(vsched.Config{Body: body(rp.Cfg, r), Check: check(rp.Cfg, r, map[string]struct{}{})}, rp.Choices)
		fmt.Println(strings.Join(trace, "\n"))
		fmt.Printf("outcome=%s key=%s\n%s\n", o.Kind, key, msg)
		if msg != "" {
			fmt.Printf("VIOLATION property=C16 replay=%s\n", *vrt.ReplayPath)
			os.Exit(1)
		}
		return
	}
	outcomes := map[string]struct{}{}
	var info []string
	for i, c := range configs() {
		if vrt.Expired() {
			res.Exhaustive = false
			break
		}
		r := &run{}
		st := vsched.Explore(vsched.Config{Name: c.String(), Deadline: vrt.Deadline(), Shard: *vrt.Shard, NShards: *vrt.NShards, SplitLvl: 3,
			StatesOut: fmt.Sprintf("states_%d_%d.bin", i, *vrt.Shard), Body: body(c, r), Check: check(c, r, outcomes)})
		res.Evaluations += st.Executions
		res.Traces += st.Executions
		res.Transitions += st.Transitions
		res.States += st.States
		res.Counters["state_keys_seen_beyond_the_kept_set"] += st.StatesBeyondCap
		res.Counters["sleep_blocked"] += st.SleepBlocked
		for k, v := range st.Notes {
			res.Counters["note."+k] += v
		}
		for k, v := range st.Outcomes {
			res.Counters["outcome."+k] += v
		}
		if !st.Exhaustive {
			res.Exhaustive = false
		}
		info = append(info, fmt.Sprintf("%s: execs=%d exhaustive=%v", c, st.Executions, st.Exhaustive))
		for _, v := range st.Violations {
			res.Violate(v.Key+" "+c.Kind, v.Msg+"\nconfig "+c.String()+"\ntrace:\n"+strings.Join(v.Trace, "\n"), replay{Cfg: c, Choices: v.Choices})
		}
		if i == 0 {
			for _, t := range st.SampleTraces {
				res.Sample(map[string]any{"config": c.String(), "schedule": t})
			}
		}
	}
	// the relay over the connection factories NewClient builds itself, against a real loopback peer (netrelay.go). They come
	// after the searches (a free run before them was seen to change one explored execution: process-wide state leaks from a
	// free run into the controlled ones) and are not subject to the internal deadline: together they take about a second
	if !vsched.Free() && vsched.FreeRuns == 0 {
		ran := 0
		for i, nc := range netCases() {
			if i%*vrt.NShards != *vrt.Shard {
				continue
			}
			if checkNetRelay(res, nc) {
				ran++
				res.Evaluations++
				res.Traces++
				outcomes["net "+nc.String()] = struct{}{}
			}
		}
		res.Counters["net_relay_sequences_run"] += int64(ran)
	}
	res.Info["configs"] = info
	res.SetDistinctKeys(outcomes)
	res.Finish()
}
