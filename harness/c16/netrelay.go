package main

// The statsd relay over the connection factories that statsdaemon.NewClient builds itself (tcp and tls): everywhere
// else in this check the dialer is replaced by the harness' fake network, so the constructor's own closures (dial
// timeout, TLS dialer) are never run. Here a real listener on a loopback port is the peer and the client is what
// NewClient returns, untouched. A real socket cannot be owned by the controlled scheduler, so each case runs free
// (vsched.RunFree: real goroutines, mock clock for the sender's reconnect timer); what is enumerated is the operation
// sequence, not the interleaving: every sequence over {F: one flush request, answered before the next operation;
// K: the peer closes every connection it holds} up to a length, for every transport and for the sender recycling its
// connection after 1, 2 or 100 streams. The peer is healthy (it always accepts and reads), so
//   - every flush request is completed exactly once, before the run ends, however many times the sender has to dial;
//   - in a sequence without K nothing is lost: every line of every flush arrives exactly once, and no completion
//     carries an error.
// Waiting is polling with a generous horizon (the loopback answers in well under a millisecond; a request is declared
// never completed after 20 s of real time and 200 reconnect timers), and a failing sequence is run again twice
// before it is believed.

import (
	"context"
	"crypto/ecdsa"
	"crypto/elliptic"
	"crypto/rand"
	"crypto/tls"
	"crypto/x509"
	"crypto/x509/pkix"
	"fmt"
	"io"
	"math/big"
	"net"
	"sort"
	"strings"
	"sync"
	"time"

	"github.com/atlassian/gostatsd"
	"github.com/atlassian/gostatsd/internal/verif/lib/fx"
	"github.com/atlassian/gostatsd/internal/verif/vrt"
	"github.com/atlassian/gostatsd/internal/verif/vsched"
	"github.com/atlassian/gostatsd/internal/verif/vtime"
	"github.com/atlassian/gostatsd/pkg/backends/sender"
	"github.com/atlassian/gostatsd/pkg/backends/statsdaemon"
)

type netCase struct {
	Transport  string // tcp | tls
	MaxStreams int
	Ops        string // F / K
}

func (nc netCase) String() string {
	return fmt.Sprintf("%s-maxstreams%d-%s", nc.Transport, nc.MaxStreams, nc.Ops)
}

func netCases() []netCase {
	depth := 4
	if vrt.Thorough() {
		depth = 6
	}
	var seqs []string
	var gen func(p string)
	gen = func(p string) {
		if strings.Contains(p, "F") && strings.HasSuffix(p, "F") {
			seqs = append(seqs, p)
		}
		if len(p) == depth {
			return
		}
		gen(p + "F")
		if !strings.HasSuffix(p, "K") {
			gen(p + "K")
		}
	}
	gen("")
	sort.Slice(seqs, func(i, j int) bool {
		if len(seqs[i]) != len(seqs[j]) {
			return len(seqs[i]) < len(seqs[j])
		}
		return seqs[i] < seqs[j]
	})
	var cs []netCase
	for _, tr := range []string{"tls", "tcp"} {
		for _, ms := range []int{1, 2, 100} {
			for _, s := range seqs {
				cs = append(cs, netCase{tr, ms, s})
			}
		}
	}
	return cs
}

var netCert *tls.Certificate

func selfSigned() (*tls.Certificate, error) {
	if netCert != nil {
		return netCert, nil
	}
	key, err := ecdsa.GenerateKey(elliptic.P256(), rand.Reader)
	if err != nil {
		return nil, err
	}
	tmpl := &x509.Certificate{SerialNumber: big.NewInt(1), Subject: pkix.Name{CommonName: "127.0.0.1"}, NotBefore: time.Now().Add(-time.Hour), NotAfter: time.Now().Add(24 * time.Hour),
		KeyUsage: x509.KeyUsageDigitalSignature | x509.KeyUsageCertSign, ExtKeyUsage: []x509.ExtKeyUsage{x509.ExtKeyUsageServerAuth}, IPAddresses: []net.IP{net.ParseIP("127.0.0.1")}, IsCA: true, BasicConstraintsValid: true}
	der, err := x509.CreateCertificate(rand.Reader, tmpl, tmpl, &key.PublicKey, key)
	if err != nil {
		return nil, err
	}
	netCert = &tls.Certificate{Certificate: [][]byte{der}, PrivateKey: key}
	return netCert, nil
}

// peer: accepts, reads everything, remembers what arrived; kill() closes every connection it holds
type peer struct {
	mu      sync.Mutex
	l       net.Listener
	conns   []net.Conn
	data    []byte
	accepts int
	readers sync.WaitGroup
}

func (p *peer) serve() {
	for {
		c, err := p.l.Accept()
		if err != nil {
			return
		}
		p.mu.Lock()
		p.conns = append(p.conns, c)
		p.accepts++
		p.mu.Unlock()
		p.readers.Add(1)
		go func() {
			defer p.readers.Done()
			buf := make([]byte, 4096)
			for {
				n, err := c.Read(buf)
				p.mu.Lock()
				p.data = append(p.data, buf[:n]...)
				p.mu.Unlock()
				if err != nil {
					if err != io.EOF {
						_ = err
					}
					c.Close()
					return
				}
			}
		}()
	}
}

func (p *peer) kill() {
	p.mu.Lock()
	cs := p.conns
	p.conns = nil
	p.mu.Unlock()
	for _, c := range cs {
		c.Close()
	}
}

func netName(f, i int) string { return fmt.Sprintf("net.f%d.c%d", f, i) }

// runNetCase returns "" (held), a skip reason starting with "skip:" or the description of what went wrong
func runNetCase(nc netCase) string {
	const series = 3
	var l net.Listener
	var err error
	var tlsConf *tls.Config
	if nc.Transport == "tls" {
		cert, cerr := selfSigned()
		if cerr != nil {
			return "skip: no certificate: " + cerr.Error()
		}
		l, err = tls.Listen("tcp", "127.0.0.1:0", &tls.Config{Certificates: []tls.Certificate{*cert}})
		pool := x509.NewCertPool()
		leaf, _ := x509.ParseCertificate(cert.Certificate[0])
		pool.AddCert(leaf)
		tlsConf = &tls.Config{RootCAs: pool, ServerName: "127.0.0.1"}
	} else {
		l, err = net.Listen("tcp", "127.0.0.1:0")
	}
	if err != nil {
		return "skip: no loopback listener: " + err.Error()
	}
	p := &peer{l: l}
	go p.serve()
	defer func() { l.Close(); p.kill() }()

	if !sender.VerifSetMaxStreams(nc.MaxStreams) && nc.MaxStreams != 100 {
		return "skip: the streams-per-connection constant was not found"
	}
	defer sender.VerifSetMaxStreams(100)

	nF := strings.Count(nc.Ops, "F")
	var mu sync.Mutex
	cbs := make([]int, nF)
	cbErrs := make([][]string, nF)
	var problem string
	o := vsched.RunFree(func() {
		ctx0, mock := fx.NewClock(context.Background())
		mock.Set(time.Now()) // the sender's write deadline is computed from this clock and handed to a real socket
		ctx, cancel := context.WithCancel(ctx0)
		client, cerr := statsdaemon.NewClient(l.Addr().String(), 10*time.Second, 10*time.Second, false, true, tlsConf, fx.Quiet())
		if cerr != nil {
			problem = "NewClient: " + cerr.Error()
			cancel()
			return
		}
		stopped := make(chan struct{})
		go func() { defer close(stopped); client.Run(ctx) }()
		f := 0
	ops:
		for _, op := range nc.Ops {
			if op == 'K' {
				p.kill()
				time.Sleep(20 * time.Millisecond) // lets the reset reach the client's socket; not an oracle
				continue
			}
			k := f
			f++
			mm := gostatsd.NewMetricMap(false)
			for i := 0; i < series; i++ {
				mm.Receive(&gostatsd.Metric{Name: netName(k, i), Type: gostatsd.COUNTER, Value: float64(i + 1), Rate: 1, Timestamp: 5})
			}
			client.SendMetricsAsync(ctx, mm, func(errs []error) {
				mu.Lock()
				defer mu.Unlock()
				cbs[k]++
				for _, e := range errs {
					if e != nil {
						cbErrs[k] = append(cbErrs[k], e.Error())
					}
				}
			})
			for round := 0; ; round++ {
				mu.Lock()
				done := cbs[k] > 0
				mu.Unlock()
				if done {
					break
				}
				if round >= 4000 {
					problem = fmt.Sprintf("flush request %d (operation sequence %s) was never completed: the peer accepts every connection (accepted so far: %d), 20 s of real time and %d reconnect timers have passed", k+1, nc.Ops, p.acceptCount(), round/20)
					break ops
				}
				time.Sleep(5 * time.Millisecond)
				if round%20 == 19 {
					// the sender waits one second of the (mock) clock between two dials
					vtime.Advance(mock, time.Second)
				}
			}
		}
		cancel()
		select {
		case <-stopped:
		case <-time.After(30 * time.Second):
			if problem == "" {
				problem = "the sender's Run did not return within 30 s of its context being cancelled"
			}
		}
	})
	if problem != "" {
		return problem
	}
	if o.Kind != "ok" {
		if o.Kind == "panic" {
			return "panic: " + o.Detail + "\n" + o.Stack
		}
		return "skip: inconclusive free run: " + o.Kind + " " + o.Detail
	}
	// the client has closed its connection; let the readers drain
	drained := make(chan struct{})
	go func() { p.readers.Wait(); close(drained) }()
	select {
	case <-drained:
	case <-time.After(30 * time.Second):
		return "skip: the peer's readers did not see the end of their connections"
	}
	mu.Lock()
	defer mu.Unlock()
	for k := range cbs {
		if cbs[k] != 1 {
			return fmt.Sprintf("flush request %d of sequence %s was completed %d times", k+1, nc.Ops, cbs[k])
		}
	}
	if !strings.Contains(nc.Ops, "K") {
		for k := range cbErrs {
			if len(cbErrs[k]) > 0 {
				return fmt.Sprintf("no transport failure in sequence %s, yet the completion of flush request %d carries %q (connections accepted: %d)", nc.Ops, k+1, cbErrs[k], p.acceptCount())
			}
		}
		p.mu.Lock()
		got := map[string]int{}
		for _, ln := range strings.Split(strings.TrimSuffix(string(p.data), "\n"), "\n") {
			got[ln]++
		}
		p.mu.Unlock()
		for k := 0; k < nF; k++ {
			for i := 0; i < series; i++ {
				want := fmt.Sprintf("%s:%d|c", netName(k, i), i+1)
				if got[want] != 1 {
					return fmt.Sprintf("sequence %s over a healthy %s connection: line %q arrived %d times; the peer received %q", nc.Ops, nc.Transport, want, got[want], string(p.data))
				}
				delete(got, want)
			}
		}
		if len(got) > 0 {
			return fmt.Sprintf("sequence %s: the peer received lines nobody sent: %v", nc.Ops, got)
		}
	}
	return ""
}

func (p *peer) acceptCount() int {
	p.mu.Lock()
	defer p.mu.Unlock()
	return p.accepts
}

var preflight *string

// netPreflight: the loopback interface must really carry a connection (listen, dial, one byte across) before anything is
// concluded from a request that does not complete; otherwise the loopback cases are skipped
func netPreflight() string {
	if preflight != nil {
		return *preflight
	}
	r := func() string {
		l, err := net.Listen("tcp", "127.0.0.1:0")
		if err != nil {
			return "no loopback listener: " + err.Error()
		}
		defer l.Close()
		got := make(chan error, 1)
		go func() {
			c, err := l.Accept()
			if err != nil {
				got <- err
				return
			}
			defer c.Close()
			_ = c.SetReadDeadline(time.Now().Add(10 * time.Second))
			_, err = io.ReadFull(c, make([]byte, 1))
			got <- err
		}()
		c, err := net.DialTimeout("tcp", l.Addr().String(), 10*time.Second)
		if err != nil {
			return "loopback dial failed: " + err.Error()
		}
		defer c.Close()
		if _, err := c.Write([]byte{1}); err != nil {
			return "loopback write failed: " + err.Error()
		}
		select {
		case err := <-got:
			if err != nil {
				return "loopback read failed: " + err.Error()
			}
		case <-time.After(15 * time.Second):
			return "loopback byte did not arrive"
		}
		return ""
	}()
	preflight = &r
	return r
}

// checkNetRelay runs one case; a failure is believed only if it shows on every one of three runs
func checkNetRelay(res *vrt.Result, nc netCase) (ran bool) {
	if why := netPreflight(); why != "" {
		res.Info["net_relay"] = "skipped: " + why
		return false
	}
	var msg string
	for try := 0; try < 3; try++ {
		msg = runNetCase(nc)
		if msg == "" {
			return true
		}
		if strings.HasPrefix(msg, "skip:") {
			res.Info["net_relay_"+nc.String()] = msg
			return false
		}
	}
	res.Violate("net-relay "+nc.Transport, "statsd relay built by statsdaemon.NewClient ("+nc.Transport+", connection recycled after "+fmt.Sprint(nc.MaxStreams)+" streams) against a healthy loopback peer: "+msg, map[string]any{"net": nc})
	return true
}
