// C11: cloud enrichment forwards every item exactly once, correctly tagged.
package main

import (
	"context"
	"fmt"
	"os"
	"sort"
	"strings"
	"time"

	"github.com/atlassian/gostatsd"
	"github.com/atlassian/gostatsd/internal/verif/lib/fx"
	"github.com/atlassian/gostatsd/internal/verif/vrt"
	"github.com/atlassian/gostatsd/internal/verif/vsched"
	"github.com/atlassian/gostatsd/pkg/stats"
	"github.com/atlassian/gostatsd/pkg/statsd"
)

// arrival: kind 'm' (metric batch with one counter and one gauge) or 'e' (event), from source index
type arrival struct {
	Kind byte
	Src  int
}

type cfg struct {
	Arrivals []arrival
	Emits    int
	Waiter   bool
	SeqFirst int  // the first SeqFirst arrivals are delivered one after the other by a single thread
	Fixed    bool // no environment choices: nothing cached initially, every lookup finds the instance
}

func (c cfg) String() string {
	var b strings.Builder
	for _, a := range c.Arrivals {
		fmt.Fprintf(&b, "%c%d", a.Kind, a.Src)
	}
	return fmt.Sprintf("%s-e%d-w%v-q%d-f%v", b.String(), c.Emits, c.Waiter, c.SeqFirst, c.Fixed)
}

var sources = []gostatsd.Source{"10.0.0.1", "10.0.0.2", "", "10.0.0.3"}

type outItem struct {
	kind   byte
	id     int // arrival index
	source gostatsd.Source
	tags   []string
	value  int64
}

type gaugeRead struct {
	name        string
	tag         string
	val         float64
	mh, eh, ei  int
}

type run struct {
	c        cfg
	ch       *statsd.CloudHandler
	out      []outItem
	gauges   []gaugeRead
	table    map[gostatsd.Source]int // 0 unknown, 1 positive, 2 negative
	outcome  map[gostatsd.Source]int // 1 positive, 2 nothing (fixed per execution)
	pending  map[gostatsd.Source]bool
	viol     string
	violKey  string
	sync     []bool // arrival was forwarded synchronously
	evDone   int
	waitRet  bool
	waitBad  string
	tableObj *int
	logObj   *int
}

func (r *run) fail(key, msg string) {
	if r.viol == "" {
		r.violKey, r.viol = key, msg
	}
}

// ---- fake CachedInstances
type cache struct {
	r      *run
	ipSink chan gostatsd.Source
	info   chan gostatsd.InstanceInfo
}

func instanceOf(s gostatsd.Source) *gostatsd.Instance {
	if s == sources[1] {
		return &gostatsd.Instance{ID: "i-" + s} // an instance that has an id but no tags
	}
	return &gostatsd.Instance{ID: "i-" + s, Tags: gostatsd.Tags{"region:r", "inst:" + string(s)}}
}

func (c *cache) outcomeOf(s gostatsd.Source) int {
	if o, ok := c.r.outcome[s]; ok {
		return o
	}
	o := 1
	if !c.r.c.Fixed {
		o = 1 + vsched.Choose(2, "lookup-outcome")
	}
	c.r.outcome[s] = o
	return o
}

func (c *cache) Peek(s gostatsd.Source) (*gostatsd.Instance, bool) {
	vsched.Access(c.r.tableObj, false, "peek")
	st, ok := c.r.table[s]
	if !ok {
		// initial content of the cache for this source: miss, or already resolved
		if !c.r.c.Fixed && vsched.Choose(2, "initially-cached") == 1 {
			st = c.outcomeOf(s)
		}
		c.r.table[s] = st
	}
	switch st {
	case 1:
		return instanceOf(s), true
	case 2:
		return nil, true
	}
	return nil, false
}
func (c *cache) IpSink() chan<- gostatsd.Source            { return c.ipSink }
func (c *cache) InfoSource() <-chan gostatsd.InstanceInfo { return c.info }
func (c *cache) EstimatedTags() int                        { return 2 }

// ---- downstream recorder
type down struct{ r *run }

func (d down) EstimatedTags() int { return 0 }
func (d down) WaitForEvents()     {}
func (d down) DispatchMetricMap(ctx context.Context, mm *gostatsd.MetricMap) {
	// deliveries are ordered against each other only when an oracle looks at their order (the waiter);
	// otherwise they commute: the oracle reads the multiset of deliveries
	vsched.Access(d.r.logObj, d.r.c.Waiter, "downstream-metrics")
	mm.Counters.Each(func(name, _ string, c gostatsd.Counter) {
		var id int
		fmt.Sscanf(name, "m%d", &id)
		d.r.out = append(d.r.out, outItem{'m', id, c.Source, append([]string{}, c.Tags...), c.Value})
	})
	mm.Gauges.Each(func(name, _ string, g gostatsd.Gauge) {
		var id int
		fmt.Sscanf(name, "g%d", &id)
		d.r.out = append(d.r.out, outItem{'g', id, g.Source, append([]string{}, g.Tags...), int64(g.Value)})
	})
}
func (d down) DispatchEvent(ctx context.Context, e *gostatsd.Event) {
	vsched.Access(d.r.logObj, d.r.c.Waiter, "downstream-event")
	var id int
	fmt.Sscanf(e.Title, "e%d", &id)
	d.r.out = append(d.r.out, outItem{'e', id, e.Source, append([]string{}, e.Tags...), 0})
	d.r.evDone++
}

// ---- statser that records gauges together with the true queue sizes
type statser struct {
	*stats.NullStatser
	r      *run
	notify chan time.Duration
}

func (s *statser) RegisterFlush() (<-chan time.Duration, func()) { return s.notify, func() {} }
func (s *statser) Gauge(name string, v float64, tags gostatsd.Tags) {
	mh, eh, ei := s.r.ch.VerifQueued()
	t := ""
	if len(tags) > 0 {
		t = tags[0]
	}
	s.r.gauges = append(s.r.gauges, gaugeRead{name, t, v, mh, eh, ei})
}
func (s *statser) WithTags(gostatsd.Tags) stats.Statser { return s }

func body(c cfg, r *run) func(*vsched.Exec) {
	return func(x *vsched.Exec) {
		*r = run{c: c, table: map[gostatsd.Source]int{}, outcome: map[gostatsd.Source]int{}, pending: map[gostatsd.Source]bool{}, sync: make([]bool, len(c.Arrivals)), tableObj: new(int), logObj: new(int)}
		ctx := context.Background()
		ca := &cache{r: r, ipSink: make(chan gostatsd.Source), info: make(chan gostatsd.InstanceInfo)}
		ch := statsd.NewCloudHandler(ca, down{r})
		r.ch = ch
		vsched.GoNamed("cloud.Run", func() { ch.Run(ctx) })
		// request receiver: always ready to take a lookup request; flags a second request for a source
		// whose lookup is still outstanding
		queue := make(chan gostatsd.Source, 8)
		if c.Fixed {
			// single-stage cache: take a request, resolve it, answer (fewer threads for the larger arrival sets)
			vsched.GoNamed("cache", func() {
				for {
					s := vsched.Recv(ca.ipSink)
					vsched.Access(r.tableObj, true, "complete")
					r.table[s] = ca.outcomeOf(s)
					vsched.Send(ca.info, gostatsd.InstanceInfo{IP: s, Instance: instanceOf(s)})
				}
			})
		}
		vsched.GoNamed("cache.recv", func() {
			if c.Fixed {
				return
			}
			for {
				s := vsched.Recv(ca.ipSink)
				vsched.Access(r.tableObj, true, "request")
				if r.pending[s] {
					r.fail("two-lookups-outstanding", fmt.Sprintf("a second lookup for %s was requested while one is outstanding", s))
				}
				r.pending[s] = true
				vsched.Send(queue, s)
			}
		})
		vsched.GoNamed("cache.complete", func() {
			if c.Fixed {
				return
			}
			for {
				s := vsched.Recv(queue)
				o := ca.outcomeOf(s)
				vsched.Access(r.tableObj, true, "complete")
				r.table[s] = o
				r.pending[s] = false
				var inst *gostatsd.Instance
				if o == 1 {
					inst = instanceOf(s)
				}
				vsched.Send(ca.info, gostatsd.InstanceInfo{IP: s, Instance: inst})
			}
		})
		st := &statser{NullStatser: &stats.NullStatser{}, r: r, notify: make(chan time.Duration)}
		if c.Emits > 0 {
			vsched.GoNamed("cloud.RunMetrics", func() { ch.RunMetrics(ctx, st) })
			vsched.GoNamed("emitter", func() {
				for i := 0; i < c.Emits; i++ {
					vsched.Send(st.notify, time.Second)
				}
			})
		}
		var arrived int
		arrObj := new(int)
		deliver := func(i int, a arrival) func() {
			return func() {
				src := sources[a.Src]
				before := len(r.out)
				if a.Kind == 'm' {
					mm := gostatsd.NewMetricMap(false)
					mm.Receive(&gostatsd.Metric{Name: fmt.Sprintf("m%d", i), Type: gostatsd.COUNTER, Value: float64(10 + i), Rate: 1, Source: src, Tags: gostatsd.Tags{"own:t"}, Timestamp: 5})
					mm.Receive(&gostatsd.Metric{Name: fmt.Sprintf("g%d", i), Type: gostatsd.GAUGE, Value: float64(20 + i), Rate: 1, Source: src, Timestamp: 5})
					ch.DispatchMetricMap(ctx, mm)
				} else {
					ch.DispatchEvent(ctx, &gostatsd.Event{Title: fmt.Sprintf("e%d", i), Source: src, Tags: gostatsd.Tags{"own:t"}})
				}
				for _, o := range r.out[before:] {
					if o.id == i {
						r.sync[i] = true
					}
				}
				vsched.Access(arrObj, true, "arrived")
				arrived++
			}
		}
		if c.SeqFirst > 0 {
			vsched.GoNamed("arrivals-in-sequence", func() {
				for i := 0; i < c.SeqFirst; i++ {
					deliver(i, c.Arrivals[i])()
				}
			})
		}
		for i, a := range c.Arrivals {
			if i < c.SeqFirst {
				continue
			}
			vsched.GoNamed(fmt.Sprintf("arrival%d", i), deliver(i, a))
		}
		if c.Waiter {
			vsched.GoNamed("waiter", func() {
				vsched.SyncOp(arrObj, false, "all-arrived", func() bool { return arrived == len(c.Arrivals) })
				ch.WaitForEvents()
				vsched.Access(r.logObj, false, "wait-returned")
				nev := 0
				for _, a := range c.Arrivals {
					if a.Kind == 'e' {
						nev++
					}
				}
				if r.evDone != nev {
					r.waitBad = fmt.Sprintf("WaitForEvents returned after %d of %d accepted events were handed downstream", r.evDone, nev)
				}
				r.waitRet = true
			})
		}
		vsched.Quiesce("settled")
	}
}

func check(c cfg, r *run, outcomes map[string]struct{}) func(*vsched.Exec, vsched.Outcome) (string, string) {
	return func(x *vsched.Exec, o vsched.Outcome) (string, string) {
		if o.Kind != "ok" {
			return o.Kind, o.Kind + ": " + o.Detail
		}
		if r.viol != "" {
			return r.violKey, r.viol
		}
		if r.waitBad != "" {
			return "wait-for-events", r.waitBad
		}
		if c.Waiter && !r.waitRet {
			return "wait-never-returned", "WaitForEvents did not return at quiescence"
		}
		// exactly once, correctly tagged
		count := map[string]int{}
		for _, it := range r.out {
			k := fmt.Sprintf("%c%d", it.kind, it.id)
			count[k]++
			a := c.Arrivals[it.id]
			src := sources[a.Src]
			wantSrc, wantTags := src, []string{}
			if it.kind != 'g' {
				wantTags = []string{"own:t"}
			}
			if src != "" && r.outcome[src] == 1 {
				inst := instanceOf(src)
				wantSrc = inst.ID
				wantTags = append(wantTags, inst.Tags...)
			}
			got := append([]string{}, it.tags...)
			sort.Strings(got)
			sort.Strings(wantTags)
			if it.source != wantSrc || fmt.Sprint(got) != fmt.Sprint(wantTags) {
				return "wrong-enrichment", fmt.Sprintf("item %s left with source %q tags %v, want source %q tags %v (lookup outcome %d)", k, it.source, got, wantSrc, wantTags, r.outcome[src])
			}
			if it.kind == 'm' && it.value != int64(10+it.id) {
				return "wrong-value", fmt.Sprintf("item %s left with value %d", k, it.value)
			}
		}
		for i, a := range c.Arrivals {
			keys := []string{fmt.Sprintf("e%d", i)}
			if a.Kind == 'm' {
				keys = []string{fmt.Sprintf("m%d", i), fmt.Sprintf("g%d", i)}
			}
			for _, k := range keys {
				if count[k] != 1 {
					return "not-exactly-once", fmt.Sprintf("item %s left the cloud stage %d times; downstream log %v", k, count[k], r.out)
				}
			}
			if sources[a.Src] == "" && !r.sync[i] {
				return "empty-source-not-immediate", fmt.Sprintf("arrival %d has no source but was not forwarded before its dispatch returned", i)
			}
		}
		// gauges
		var sig strings.Builder
		for _, g := range r.gauges {
			var want int
			switch {
			case g.name == "cloudprovider.hosts_queued" && g.tag == "type:metric":
				want = g.mh
			case g.name == "cloudprovider.hosts_queued" && g.tag == "type:event":
				want = g.eh
			case g.name == "cloudprovider.items_queued":
				want = g.ei
			default:
				continue
			}
			if g.val != float64(want) {
				return "gauge " + g.name + " " + g.tag, fmt.Sprintf("%s{%s} reported %v while the true number is %d (parked metric hosts %d, event hosts %d, events %d)", g.name, g.tag, g.val, want, g.mh, g.eh, g.ei)
			}
			fmt.Fprintf(&sig, "%d", want)
			if want > 0 {
				x.Note("gauge-read-while-parked")
			}
		}
		var order strings.Builder
		for _, it := range r.out {
			fmt.Fprintf(&order, "%c%d,", it.kind, it.id)
		}
		outcomes[c.String()+order.String()+sig.String()+fmt.Sprint(r.outcome)] = struct{}{}
		for i := range c.Arrivals {
			if !r.sync[i] {
				x.Note("some-item-parked")
			}
		}
		return "", ""
	}
}

func configs() []cfg {
	A := func(s string) []arrival {
		var as []arrival
		for i := 0; i+1 < len(s); i += 2 {
			as = append(as, arrival{s[i], int(s[i+1] - '0')})
		}
		return as
	}
	if os.Getenv("C11_ONLY") != "" {
		seq := 2
		if v := os.Getenv("C11_SEQ"); v != "" {
			fmt.Sscan(v, &seq)
		}
		return []cfg{{A(os.Getenv("C11_ONLY")), 0, false, seq, true}}
	}
	cs := []cfg{
		{A("m0e0"), 1, false, 0, false}, {A("e0m0"), 1, false, 0, false}, {A("m0m0"), 0, false, 0, false}, {A("e0e0"), 0, true, 0, false}, {A("m0e1"), 0, false, 0, false},
		{A("e0m2"), 0, true, 0, false},
		// three new sources in a row: one lookup on offer to the cache, two more waiting behind it
		{A("m0e1m3"), 0, false, 3, true},
		// two events of one source parked (items 2, hosts 1) while the numbers are read
		{A("e0e0"), 1, false, 2, true},
		// three events of one source delivered in sequence and a fourth concurrently: two are parked, the lookup
		// completes, and the other two (which missed the cache before it completed) are parked while the
		// dispatch goroutine of the first two is anywhere between its events (seeded change C11b)
		{A("e0e0e0e0"), 0, false, 3, true},
	}
	if vrt.Thorough() {
		cs = append(cs, cfg{A("e0m0"), 2, false, 0, false}, cfg{A("m0m1e0"), 0, false, 0, false}, cfg{A("e0e1m0"), 1, true, 0, false}, cfg{A("m0e0m0"), 2, false, 0, false}, cfg{A("e0m0e0"), 2, true, 0, false}, cfg{A("m0e0m1e1"), 1, false, 0, false}, cfg{A("m0m0e0e0"), 1, true, 0, false}, cfg{A("e0m0m1"), 2, true, 0, false}, cfg{A("m0e0e1m2"), 1, true, 0, false}, cfg{A("m0m0m0m0"), 0, false, 2, true},
			// two events parked, then two more arriving around the completion of the first lookup
			cfg{A("e0e0e0e0"), 0, false, 2, true})
	}
	return cs
}

type replay struct {
	Cfg     cfg
	Choices []vsched.TransKey
}

func main() {
	res := vrt.Init()
	_ = fx.Epoch
	if *vrt.ReplayPath != "" {
		var rp replay
		vrt.LoadReplay(&rp)
		r := &run{}
		o, key, msg, trace := vsched.Replay(vsched.Config{Body: body(rp.Cfg, r), Check: check(rp.Cfg, r, map[string]struct{}{}), AllowDeadlock: true}, rp.Choices)
		fmt.Println(strings.Join(trace, "\n"))
		fmt.Printf("outcome=%s key=%s\n%s\n", o.Kind, key, msg)
		if msg != "" {
			fmt.Printf("VIOLATION property=C11 replay=%s\n", *vrt.ReplayPath)
			os.Exit(1)
		}
		return
	}
	outcomes := map[string]struct{}{}
	var info []string
	for i, c := range configs() {
		if vrt.Expired() {
			res.Exhaustive = false
			break
		}
		r := &run{}
		st := vsched.Explore(vsched.Config{Name: c.String(), Deadline: vrt.Deadline(), Shard: *vrt.Shard, NShards: *vrt.NShards, SplitLvl: 3,
			StatesOut: fmt.Sprintf("states_%d_%d.bin", i, *vrt.Shard), Body: body(c, r), Check: check(c, r, outcomes)})
		res.Evaluations += st.Executions
		res.Traces += st.Executions
		res.Transitions += st.Transitions
		res.States += st.States
		res.Counters["state_keys_seen_beyond_the_kept_set"] += st.StatesBeyondCap
		res.Counters["sleep_blocked"] += st.SleepBlocked
		for k, v := range st.Notes {
			res.Counters["note."+k] += v
		}
		for k, v := range st.Outcomes {
			res.Counters["outcome."+k] += v
		}
		if !st.Exhaustive {
			res.Exhaustive = false
		}
		info = append(info, fmt.Sprintf("%s: execs=%d exhaustive=%v", c, st.Executions, st.Exhaustive))
		for _, v := range st.Violations {
			res.Violate(v.Key+" "+c.String(), v.Msg+"\ntrace:\n"+strings.Join(v.Trace, "\n"), replay{c, v.Choices})
		}
		if i == 0 {
			for _, t := range st.SampleTraces {
				res.Sample(map[string]any{"config": c.String(), "schedule": t})
			}
		}
	}
	res.Info["configs"] = info
	res.SetDistinctKeys(outcomes)
	res.Finish()
}
