package main

// An event received on the HTTP ingestion endpoint of an instance that forwards it upstream (forwarder mode),
// explored over all interleavings: net/http cancels the request's context as soon as the handler has returned,
// and the forwarder posts events from a goroutine of its own.

import (
	"bytes"
	"context"
	"fmt"
	"net/http/httptest"
	"time"

	"github.com/cenkalti/backoff"
	"github.com/spf13/viper"
	"github.com/tilinna/clock"
	"google.golang.org/protobuf/proto"

	"github.com/atlassian/gostatsd"
	"github.com/atlassian/gostatsd/internal/verif/lib/fx"
	"github.com/atlassian/gostatsd/internal/verif/vsched"
	"github.com/atlassian/gostatsd/pb"
	"github.com/atlassian/gostatsd/pkg/statsd"
	"github.com/atlassian/gostatsd/pkg/transport"
)

func httpFwdBody(r *run) func(*vsched.Exec) {
	return func(x *vsched.Exec) {
		*r = run{tableObj: new(int), logObj: new(int)}
		ctx, _ := fx.NewClock(context.Background())
		w := vsched.EnvGet("clock").(clock.Clock)
		clock.VerifDefault = w
		backoff.VerifNow = func() time.Time { return w.Now() }
		b := &evBackend{name: "b0", r: r}
		r.backs = []*evBackend{b}
		bh := statsd.NewBackendHandler([]gostatsd.Backend{b}, 1, 1, 1, statsd.AggregatorFactoryFunc(func() statsd.Aggregator {
			return statsd.NewMetricAggregator(nil, 0, 0, 0, 0, gostatsd.TimerSubtypes{}, 0)
		}))
		upstream, err := fx.IngestionRouter(statsd.NewTagHandler(bh, nil, nil), "up")
		if err != nil {
			panic(err)
		}
		pool := transport.NewTransportPool(fx.Quiet(), viper.New())
		hc, _ := pool.Get("default")
		hc.Client.Transport = &bridge{router: upstream}
		hc.Client.Timeout = 0
		fwd, err := statsd.NewHttpForwarderHandlerV2(fx.Quiet(), "default", "http://up.invalid", 1, 1, 1, false, "zlib", 0, time.Second, time.Second, nil, nil, pool, nil)
		if err != nil {
			panic(err)
		}
		vsched.GoNamed("fwd.Run", func() { fwd.Run(ctx) })
		vsched.Quiesce("started")
		front, err := fx.IngestionRouter(statsd.NewTagHandler(fwd, nil, nil), "front")
		if err != nil {
			panic(err)
		}
		raw, _ := proto.Marshal(&pb.EventV2{Title: "deploy", Text: "done", DateHappened: 12, Hostname: ip})
		rec := httptest.NewRecorder()
		rctx, rcancel := context.WithCancel(ctx)
		front.ServeHTTP(rec, httptest.NewRequest("POST", "/v2/event", bytes.NewReader(raw)).WithContext(rctx))
		vsched.Cancel(rcancel) // what net/http does when the handler has returned
		if rec.Code != 202 {
			r.waitBad = fmt.Sprintf("/v2/event answered %d", rec.Code)
		}
		fwd.WaitForEvents()
		vsched.Quiesce("done")
	}
}

func httpFwdCheck(r *run) func(*vsched.Exec, vsched.Outcome) (string, string) {
	return func(x *vsched.Exec, o vsched.Outcome) (string, string) {
		if o.Kind != "ok" {
			return o.Kind, o.Kind + ": " + o.Detail
		}
		if r.waitBad != "" {
			return "http-status", r.waitBad
		}
		if n := len(r.backs[0].got); n != 1 {
			return "not-exactly-once", fmt.Sprintf("an event accepted (202) on the HTTP ingestion endpoint of a forwarding instance reached the upstream's backend %d times", n)
		}
		if g := r.backs[0].got[0]; g.Title != "deploy" || g.Text != "done" || g.DateHappened != 12 {
			return "event-fields", fmt.Sprintf("got %+v", g)
		}
		return "", ""
	}
}
