package main

// Shutdown with an event in flight: an event line has been accepted and its delivery to a backend is under way
// (the backend's SendEvent has not returned) when the server's context ends. The server must not be gone before
// the delivery has finished - for every kind of statser it can be configured with (the wait at shutdown goes
// through the statser). One schedule per statser type, on the whole server (statsd.Server.RunWithCustomSocket on a scripted socket).

import (
	"context"
	"errors"
	"fmt"
	"net"
	"time"

	"github.com/spf13/viper"
	"github.com/tilinna/clock"

	"github.com/atlassian/gostatsd"
	"github.com/atlassian/gostatsd/internal/verif/lib/fx"
	"github.com/atlassian/gostatsd/internal/verif/vsched"
	"github.com/atlassian/gostatsd/pkg/statsd"
	"github.com/atlassian/gostatsd/pkg/transport"
)

// scriptedConn is the server's socket: datagrams arrive when the harness sends them
type scriptedConn struct {
	ch     chan []byte
	closed chan struct{}
}

func (c *scriptedConn) ReadFrom(b []byte) (int, net.Addr, error) {
	switch vsched.Select(false, vsched.CaseRecv(c.ch), vsched.CaseRecv(c.closed)) {
	case 0:
		d := vsched.SelRecv(c.ch)
		return copy(b, d), &net.UDPAddr{IP: net.ParseIP(ip), Port: 9}, nil
	default:
		vsched.SelRecv2(c.closed)
		return 0, nil, errors.New("use of closed network connection")
	}
}
func (c *scriptedConn) WriteTo([]byte, net.Addr) (int, error) { return 0, nil }
func (c *scriptedConn) Close() error {
	select {
	case <-c.closed:
	default:
		vsched.Close(c.closed)
	}
	return nil
}
func (c *scriptedConn) LocalAddr() net.Addr              { return &net.UDPAddr{} }
func (c *scriptedConn) SetDeadline(time.Time) error      { return nil }
func (c *scriptedConn) SetReadDeadline(time.Time) error  { return nil }
func (c *scriptedConn) SetWriteDeadline(time.Time) error { return nil }

type gateBackend struct {
	gate      chan struct{}
	inFlight  int
	delivered int
}

func (b *gateBackend) Name() string { return "gate" }
func (b *gateBackend) SendMetricsAsync(_ context.Context, _ *gostatsd.MetricMap, cb gostatsd.SendCallback) {
	cb(nil)
}
func (b *gateBackend) SendEvent(ctx context.Context, e *gostatsd.Event) error {
	if e.Title != "deploy" {
		return nil // the server's own start / stop events pass
	}
	b.inFlight++
	vsched.Recv(b.gate) // the backend is slow: the send returns when the harness says so
	b.inFlight--
	b.delivered++
	return nil
}

func runShutdownEventCase(statserType string) {
	res.Evaluations++
	be := &gateBackend{gate: make(chan struct{})}
	returned := false
	var early, problem string
	o := vsched.RunOnce(func() {
		ctx, _ := fx.NewClock(context.Background())
		clock.VerifDefault = vsched.EnvGet("clock").(clock.Clock)
		defer func() { clock.VerifDefault = nil }()
		v := viper.New()
		s := statsd.Server{Backends: []gostatsd.Backend{be}, MaxReaders: 1, MaxParsers: 1, MaxWorkers: 1, MaxQueueSize: 4, MaxConcurrentEvents: 2, ReceiveBatchSize: 1,
			FlushInterval: time.Second, ExpiryIntervalCounter: time.Minute, ExpiryIntervalGauge: time.Minute, ExpiryIntervalSet: time.Minute, ExpiryIntervalTimer: time.Minute,
			StatserType: statserType, ServerMode: "standalone", Viper: v, TransportPool: transport.NewTransportPool(fx.Quiet(), v)}
		conn := &scriptedConn{ch: make(chan []byte), closed: make(chan struct{})}
		sctx, cancel := context.WithCancel(ctx)
		vsched.GoNamed("server", func() {
			_ = s.RunWithCustomSocket(sctx, func() (net.PacketConn, error) { return conn, nil })
			returned = true
		})
		vsched.Quiesce("up")
		vsched.Send(conn.ch, []byte("_e{6,4}:deploy|done"))
		vsched.Quiesce("event-in-flight")
		if be.inFlight != 1 {
			problem = fmt.Sprintf("the event did not reach the backend's SendEvent (in flight %d, delivered %d)", be.inFlight, be.delivered)
			return
		}
		vsched.Cancel(cancel)
		vsched.Quiesce("shutting-down")
		if returned {
			early = "RunWithCustomSocket returned while the delivery of an accepted event was still under way"
		}
		vsched.Send(be.gate, struct{}{})
		vsched.Quiesce("down")
	})
	rp := map[string]any{"shutdownEvent": statserType}
	bad := func(kind, msg string) {
		res.Violate("server "+kind+" statser-"+statserType, fmt.Sprintf("whole server, --statser-type=%s, event line accepted, backend still sending it when the context ends: %s", statserType, msg), rp)
	}
	switch {
	case o.Kind != "ok":
		bad("outcome-"+o.Kind, o.Detail+"\n"+o.Stack)
	case problem != "":
		bad("setup", problem)
	case early != "":
		bad("shutdown-did-not-wait", early)
	case !returned:
		bad("shutdown-stuck", "the server did not return after the delivery had finished")
	case be.delivered != 1:
		bad("event-count", fmt.Sprintf("the event was delivered %d times", be.delivered))
	}
}
