package main

// Events (and a metric) received on the HTTP ingestion endpoint of a whole server: the Server value is run by
// Server.RunWithCustomSocket - which creates the HTTP servers itself - with a real listener on a loopback
// port, a warm instance cache, static tags and a recording backend. The listener's goroutines cannot be
// owned by the controlled scheduler, so this case runs free (real goroutines, mock clock; vsched.RunFree
// waits for quiescence by inspecting goroutine states). One schedule: it decides how the server wires
// its HTTP ingestion into the pipeline, not interleavings.

import (
	"bytes"
	"context"
	"errors"
	"fmt"
	"net"
	"net/http"
	"sort"
	"strings"
	"sync"
	"time"

	"github.com/spf13/viper"
	"github.com/tilinna/clock"
	"google.golang.org/protobuf/proto"

	"github.com/atlassian/gostatsd"
	"github.com/atlassian/gostatsd/internal/verif/lib/fx"
	"github.com/atlassian/gostatsd/internal/verif/vrt"
	"github.com/atlassian/gostatsd/internal/verif/vsched"
	"github.com/atlassian/gostatsd/internal/verif/vtime"
	"github.com/atlassian/gostatsd/pb"
	"github.com/atlassian/gostatsd/pkg/statsd"
	"github.com/atlassian/gostatsd/pkg/transport"
)

type warmInstances struct{}

func (warmInstances) Peek(s gostatsd.Source) (*gostatsd.Instance, bool) {
	if s == "10.1.2.3" {
		return &gostatsd.Instance{ID: "i-0abc", Tags: gostatsd.Tags{"region:moon"}}, true
	}
	return nil, true
}
func (warmInstances) IpSink() chan<- gostatsd.Source { return make(chan gostatsd.Source) }
func (warmInstances) InfoSource() <-chan gostatsd.InstanceInfo {
	return make(chan gostatsd.InstanceInfo)
}
func (warmInstances) EstimatedTags() int { return 1 }

type lockedBackend struct {
	mu      sync.Mutex
	events  []gostatsd.Event
	flushes [][]fx.Series
}

func (b *lockedBackend) Name() string { return "rec" }
func (b *lockedBackend) SendEvent(_ context.Context, e *gostatsd.Event) error {
	b.mu.Lock()
	defer b.mu.Unlock()
	ev := *e
	ev.Tags = e.Tags.Copy()
	b.events = append(b.events, ev)
	return nil
}
func (b *lockedBackend) SendMetricsAsync(_ context.Context, mm *gostatsd.MetricMap, cb gostatsd.SendCallback) {
	b.mu.Lock()
	b.flushes = append(b.flushes, fx.Snapshot(mm))
	b.mu.Unlock()
	cb(nil)
}

type idleConn struct{ closed chan struct{} }

func (c *idleConn) ReadFrom([]byte) (int, net.Addr, error) {
	<-c.closed
	return 0, nil, errors.New("use of closed network connection")
}
func (c *idleConn) WriteTo([]byte, net.Addr) (int, error) { return 0, nil }
func (c *idleConn) Close() error {
	select {
	case <-c.closed:
	default:
		close(c.closed)
	}
	return nil
}
func (c *idleConn) LocalAddr() net.Addr              { return &net.UDPAddr{} }
func (c *idleConn) SetDeadline(time.Time) error      { return nil }
func (c *idleConn) SetReadDeadline(time.Time) error  { return nil }
func (c *idleConn) SetWriteDeadline(time.Time) error { return nil }

func httpWholeServer(res *vrt.Result) {
	res.Evaluations++
	// a free loopback port
	l, err := net.Listen("tcp", "127.0.0.1:0")
	if err != nil {
		res.Info["http_whole_server"] = "skipped: no loopback listener: " + err.Error()
		return
	}
	addr := l.Addr().String()
	l.Close()
	be := &lockedBackend{}
	var posted []int
	var postErr error
	o := vsched.RunFree(func() {
		_, mock := fx.NewClock(context.Background())
		clock.VerifDefault = vsched.EnvGet("clock").(clock.Clock)
		defer func() { clock.VerifDefault = nil }()
		v := viper.New()
		v.Set("http-servers", []string{"rx"})
		v.Set("http", map[string]any{"rx": map[string]any{"address": addr, "enable-ingestion": true}})
		s := statsd.Server{Backends: []gostatsd.Backend{be}, CachedInstances: warmInstances{}, DefaultTags: gostatsd.Tags{"env:prod"}, MaxReaders: 1, MaxParsers: 1, MaxWorkers: 1, MaxQueueSize: 4,
			MaxConcurrentEvents: 2, ReceiveBatchSize: 1, FlushInterval: time.Second, ExpiryIntervalCounter: time.Minute, ExpiryIntervalGauge: time.Minute, ExpiryIntervalSet: time.Minute, ExpiryIntervalTimer: time.Minute,
			StatserType: gostatsd.StatserNull, ServerMode: "standalone", Viper: v, TransportPool: transport.NewTransportPool(fx.Quiet(), v)}
		ctx, cancel := context.WithCancel(context.Background())
		conn := &idleConn{closed: make(chan struct{})}
		stopped := make(chan struct{})
		go func() {
			defer close(stopped)
			_ = s.RunWithCustomSocket(ctx, func() (net.PacketConn, error) { return conn, nil })
		}()
		// the listener comes up asynchronously: try until it answers (bounded by the free run's own deadline)
		ev, _ := proto.Marshal(&pb.EventV2{Title: "deploy", Text: "v2", Hostname: "10.1.2.3", Tags: []string{"service:web"}, DateHappened: 7})
		raw, _ := proto.Marshal(&pb.RawMessageV2{Counters: map[string]*pb.CounterTagV2{"hits": {TagMap: map[string]*pb.RawCounterV2{"service:web,s:10.1.2.3": {Value: 3, Tags: []string{"service:web"}, Hostname: "10.1.2.3"}}}}})
		client := &http.Client{Timeout: 10 * time.Second}
		for _, req := range []struct {
			path string
			body []byte
		}{{"/v2/event", ev}, {"/v2/raw", raw}} {
			for try := 0; ; try++ {
				resp, err := client.Post("http://"+addr+req.path, "application/x-protobuf", bytes.NewReader(req.body))
				if err == nil {
					posted = append(posted, resp.StatusCode)
					resp.Body.Close()
					break
				}
				if try > 200 {
					postErr = err
					break
				}
				time.Sleep(20 * time.Millisecond)
			}
		}
		client.CloseIdleConnections()
		vsched.Quiesce("posted")
		vtime.Advance(mock, time.Second)
		vsched.Quiesce("flushed")
		cancel()
		<-stopped
	})
	bad := func(kind, msg string) {
		res.Violate("http-whole-server "+kind, "whole server with an HTTP ingestion endpoint, static tag env:prod and a warm instance cache (10.1.2.3 -> i-0abc, region:moon): "+msg, map[string]any{"httpWholeServer": true})
	}
	if postErr != nil {
		res.Info["http_whole_server"] = "skipped: the loopback listener never answered: " + postErr.Error()
		return
	}
	if o.Kind != "ok" {
		if o.Kind == "panic" {
			bad("panic", o.Detail+"\n"+o.Stack)
		} else {
			res.Info["http_whole_server"] = "inconclusive: " + o.Kind + " " + o.Detail
		}
		return
	}
	if fmt.Sprint(posted) != "[202 202]" {
		bad("status", fmt.Sprintf("the requests were answered %v", posted))
		return
	}
	be.mu.Lock()
	defer be.mu.Unlock()
	if len(be.events) != 1 {
		bad("event-count", fmt.Sprintf("%d events reached the backend", len(be.events)))
	} else {
		e := be.events[0]
		tags := append([]string{}, e.Tags...)
		sort.Strings(tags)
		if string(e.Source) != "i-0abc" || strings.Join(tags, ",") != "env:prod,region:moon,service:web" || e.Title != "deploy" || e.Text != "v2" || e.DateHappened != 7 {
			bad("event-fields", fmt.Sprintf("the event posted to /v2/event reached the backend as source=%q tags=%v title=%q text=%q date=%d; want source i-0abc, tags env:prod region:moon service:web", e.Source, tags, e.Title, e.Text, e.DateHappened))
		}
	}
	found := false
	for _, f := range be.flushes {
		for _, sr := range f {
			if sr.Name == "hits" {
				tags := append([]string{}, sr.Tags...)
				sort.Strings(tags)
				found = true
				if sr.Source != "i-0abc" || strings.Join(tags, ",") != "env:prod,region:moon,service:web" || sr.Count != 3 {
					bad("metric-fields", fmt.Sprintf("the counter posted to /v2/raw was flushed as source=%q tags=%v value=%d; want source i-0abc, tags env:prod region:moon service:web, value 3", sr.Source, tags, sr.Count))
				}
			}
		}
	}
	if !found {
		bad("metric-missing", "the counter posted to /v2/raw was not flushed")
	}
	res.Info["http_whole_server"] = "ran"
}
