package main

// At shutdown the server waits for events through its statser (sendStopEvent: statser.WaitForEvents()), whatever
// the statser's own settings: with internal events disabled (and in forwarder mode) the wait must still reach the
// pipeline, or events accepted from the network are dropped when everything is cancelled.

import (
	"context"
	"fmt"

	"github.com/atlassian/gostatsd"
	"github.com/atlassian/gostatsd/pkg/stats"
)

type waitProbe struct{ waits int }

func (p *waitProbe) EstimatedTags() int                                     { return 0 }
func (p *waitProbe) DispatchMetricMap(context.Context, *gostatsd.MetricMap) {}
func (p *waitProbe) DispatchEvent(context.Context, *gostatsd.Event)         {}
func (p *waitProbe) WaitForEvents()                                         { p.waits++ }

func checkShutdownWait() {
	for _, disableEvents := range []bool{false, true} {
		for _, forwarder := range []bool{false, true} {
			res.Evaluations++
			p := &waitProbe{}
			st := stats.NewInternalStatser(gostatsd.Tags{"a:b"}, "ns", "h", p, disableEvents, forwarder)
			st.WaitForEvents()
			if p.waits != 1 {
				res.Violate("shutdown-wait-skipped", fmt.Sprintf("InternalStatser (disable-internal-events=%v, forwarder mode=%v): WaitForEvents reached the pipeline %d times, want once - the server's shutdown waits for accepted events through it", disableEvents, forwarder, p.waits), map[string]any{"shutdownWait": true})
			}
		}
	}
}
