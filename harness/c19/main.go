// C19: every event is delivered once to every backend with its fields intact.
package main

import (
	"bytes"
	"context"
	"fmt"
	"net/http"
	"net/http/httptest"
	"os"
	"sort"
	"strings"
	"time"

	"github.com/cenkalti/backoff"
	"github.com/spf13/viper"
	"github.com/tilinna/clock"
	"google.golang.org/protobuf/proto"

	"github.com/atlassian/gostatsd"
	"github.com/atlassian/gostatsd/internal/verif/lib/fx"
	"github.com/atlassian/gostatsd/internal/verif/ref/lineref"
	"github.com/atlassian/gostatsd/internal/verif/vrt"
	"github.com/atlassian/gostatsd/internal/verif/vsched"
	"github.com/atlassian/gostatsd/pb"
	"github.com/atlassian/gostatsd/pkg/statsd"
	"github.com/atlassian/gostatsd/pkg/transport"
)

const ip = "10.9.8.7"

var static = gostatsd.Tags{"env:test", "dup"}

func instance() *gostatsd.Instance {
	return &gostatsd.Instance{ID: "i-abc", Tags: gostatsd.Tags{"region:r1", "dup"}}
}

// instanceOf: lookup outcome 1 is an instance with tags, 3 an instance that has an id but no tags, 2 nothing.
func instanceOf(outcome int) *gostatsd.Instance {
	switch outcome {
	case 1:
		return instance()
	case 3:
		return &gostatsd.Instance{ID: "i-abc"}
	}
	return nil
}

// ---- recording backend
type evBackend struct {
	name  string
	r     *run
	got   []gostatsd.Event
	inFly int
	slow  chan struct{}
}

func (b *evBackend) Name() string { return b.name }
func (b *evBackend) SendMetricsAsync(ctx context.Context, mm *gostatsd.MetricMap, cb gostatsd.SendCallback) {
	cb(nil)
}
func (b *evBackend) SendEvent(ctx context.Context, e *gostatsd.Event) error {
	vsched.Access(b.r.logObj, true, "send-event-begin")
	b.inFly++
	b.r.totalBegun++
	if b.inFly > b.r.maxInFly {
		b.r.maxInFly = b.inFly
	}
	ev := *e
	ev.Tags = append(gostatsd.Tags{}, e.Tags...)
	vsched.Access(b.r.logObj, true, "send-event-end") // a scheduling point inside the call: it takes time
	b.inFly--
	b.r.totalDone++
	// like an HTTP backend, the send is abandoned when its context is cancelled before it completes
	if err := ctx.Err(); err != nil {
		return err
	}
	b.got = append(b.got, ev)
	if b.r.timeoutsLeft > 0 {
		b.r.timeoutsLeft--
		return context.DeadlineExceeded // the event was handed to the backend; that the backend could not send it on is its own failure
	}
	return nil
}

// ---- fake instance cache (source is always the sender address)
type cache struct {
	r      *run
	ipSink chan gostatsd.Source
	info   chan gostatsd.InstanceInfo
}

func (c *cache) Peek(s gostatsd.Source) (*gostatsd.Instance, bool) {
	vsched.Access(c.r.tableObj, false, "peek")
	if c.r.table != 0 {
		return instanceOf(c.r.table), true
	}
	return nil, false
}
func (c *cache) IpSink() chan<- gostatsd.Source           { return c.ipSink }
func (c *cache) InfoSource() <-chan gostatsd.InstanceInfo { return c.info }
func (c *cache) EstimatedTags() int                       { return 2 }

type scfg struct {
	Backends   int
	Concurrent uint
	Senders    []int // datagrams (one event each) per sender thread
	Cloud      bool
	Waiter     bool
	HTTPFwd    bool `json:",omitempty"` // instead: one event over HTTP into an instance in forwarder mode (httpfwd.go)
	Cancel     bool `json:",omitempty"` // one more event arrives the way an HTTP request delivers it - with its own context - and that context is cancelled at any point (the client went away)
	Timeouts   int  `json:",omitempty"` // the first SendEvent calls fail with context.DeadlineExceeded (what an HTTP backend returns when its retries run into the per-event deadline)
}

func (c scfg) String() string {
	return fmt.Sprintf("B%d-c%d-s%v-cloud%v-w%v", c.Backends, c.Concurrent, c.Senders, c.Cloud, c.Waiter) + map[bool]string{true: fmt.Sprintf("-timeouts%d", c.Timeouts)}[c.Timeouts > 0] + map[bool]string{true: "-cancel"}[c.Cancel] + map[bool]string{true: "-http-into-forwarder"}[c.HTTPFwd]
}

type run struct {
	backs        []*evBackend
	table        int // 0 unknown, 1 instance, 2 nothing
	outcome      int
	maxInFly     int
	totalBegun   int
	totalDone    int
	timeoutsLeft int
	waitBad      string
	waitRet      bool
	tableObj     *int
	logObj       *int
	sent         int
}

// metricFilters: the server also has metric filters configured - one that every metric satisfies and that drops all
// tags and the host. Filters are about metrics (FILTERING.md); events pass the tag stage with their tags and source.
var metricFilters = []statsd.Filter{{DropTags: gostatsd.StringMatchList{gostatsd.NewStringMatch("*")}, DropHost: true}}

func eventLine(id int) string {
	switch id % 3 {
	case 0:
		return fmt.Sprintf("_e{2,5}:e%d|l1\\nl|k:key|s:src|p:low|t:warning|#own:%d,dup", id, id)
	case 1:
		return fmt.Sprintf("_e{2,1}:e%d|x|d:1234|h:ignored", id)
	}
	return fmt.Sprintf("_e{2,0}:e%d||t:error", id)
}

func sbody(c scfg, r *run) func(*vsched.Exec) {
	if c.HTTPFwd {
		return httpFwdBody(r)
	}
	return func(x *vsched.Exec) {
		*r = run{tableObj: new(int), logObj: new(int), timeoutsLeft: c.Timeouts}
		ctx, _ := fx.NewClock(context.Background())
		var backends []gostatsd.Backend
		for i := 0; i < c.Backends; i++ {
			b := &evBackend{name: fmt.Sprint("b", i), r: r}
			r.backs = append(r.backs, b)
			backends = append(backends, b)
		}
		bh := statsd.NewBackendHandler(backends, c.Concurrent, 1, 1, statsd.AggregatorFactoryFunc(func() statsd.Aggregator {
			return statsd.NewMetricAggregator(nil, 0, 0, 0, 0, gostatsd.TimerSubtypes{}, 0)
		}))
		var head gostatsd.PipelineHandler = statsd.NewTagHandler(bh, append(gostatsd.Tags{}, static...), metricFilters)
		if c.Cloud {
			r.outcome = 1 + vsched.Choose(3, "lookup-outcome")
			if vsched.Choose(2, "initially-cached") == 1 {
				r.table = r.outcome
			}
			ca := &cache{r: r, ipSink: make(chan gostatsd.Source), info: make(chan gostatsd.InstanceInfo)}
			ch := statsd.NewCloudHandler(ca, head)
			vsched.GoNamed("cloud.Run", func() { ch.Run(ctx) })
			vsched.GoNamed("cache", func() {
				for {
					s := vsched.Recv(ca.ipSink)
					vsched.Access(r.tableObj, true, "complete")
					r.table = r.outcome
					vsched.Send(ca.info, gostatsd.InstanceInfo{IP: s, Instance: instanceOf(r.outcome)})
				}
			})
			head = ch
		}
		in := make(chan []*statsd.Datagram)
		p := statsd.NewDatagramParser(in, "", false, 0, head, 0, false, fx.Quiet())
		vsched.GoNamed("parser", func() { p.Run(ctx) })
		arrObj := new(int)
		finished := 0
		id := 0
		for si, n := range c.Senders {
			ids := make([]int, n)
			for k := range ids {
				ids[k] = id
				id++
			}
			vsched.GoNamed(fmt.Sprint("sender", si), func() {
				for _, e := range ids {
					vsched.Send(in, []*statsd.Datagram{{IP: ip, Msg: []byte(eventLine(e)), Timestamp: 9, DoneFunc: func() {}}})
				}
				// a datagram is accepted once the parser took it; a second (empty) batch tells us the first was handled
				vsched.Send(in, []*statsd.Datagram(nil))
				vsched.Access(arrObj, true, "sender-done")
				finished++
			})
		}
		r.sent = id
		producers := len(c.Senders)
		if c.Cancel {
			producers++
			cctx, cancel := context.WithCancel(ctx)
			vsched.GoNamed("client", func() {
				head.DispatchEvent(cctx, &gostatsd.Event{Title: "x0", Text: "from a request", Source: ip})
				vsched.Access(arrObj, true, "client-done")
				finished++
			})
			vsched.GoNamed("client-gone", func() { vsched.Cancel(cancel) })
		}
		if c.Waiter {
			vsched.GoNamed("waiter", func() {
				vsched.SyncOp(arrObj, false, "all-sent", func() bool { return finished == producers })
				head.WaitForEvents()
				vsched.Access(r.logObj, false, "wait-returned")
				if r.totalDone < r.sent*c.Backends || r.totalDone != r.totalBegun {
					r.waitBad = fmt.Sprintf("WaitForEvents returned while %d of %d SendEvent calls had returned (%d begun)", r.totalDone, r.sent*c.Backends, r.totalBegun)
				}
				r.waitRet = true
			})
		}
		vsched.Quiesce("settled")
	}
}

func wantEvent(line string, cloud int) (gostatsd.Event, bool) {
	v, e := lineref.ParseEvent(line)
	if v != lineref.Accept {
		return gostatsd.Event{}, false
	}
	w := gostatsd.Event{Title: e.Title, Text: e.Text, DateHappened: e.Date, AggregationKey: e.Key, SourceTypeName: e.SourceType, Source: ip}
	if e.Priority == "low" {
		w.Priority = gostatsd.PriLow
	}
	switch e.Alert {
	case "warning":
		w.AlertType = gostatsd.AlertWarning
	case "error":
		w.AlertType = gostatsd.AlertError
	case "success":
		w.AlertType = gostatsd.AlertSuccess
	}
	if w.DateHappened == 0 {
		w.DateHappened = fx.Epoch.Unix()
	}
	set := map[string]bool{}
	for _, t := range e.Tags {
		set[t] = true
	}
	if inst := instanceOf(cloud); inst != nil {
		w.Source = inst.ID
		for _, t := range inst.Tags {
			set[t] = true
		}
	}
	for _, t := range static {
		set[t] = true
	}
	for t := range set {
		w.Tags = append(w.Tags, t)
	}
	sort.Strings(w.Tags)
	return w, true
}

func sameEvent(g, w gostatsd.Event) string {
	gt := append([]string{}, g.Tags...)
	sort.Strings(gt)
	for i := 1; i < len(gt); i++ {
		if gt[i] == gt[i-1] {
			return fmt.Sprintf("duplicate tag %q in %v", gt[i], g.Tags)
		}
	}
	if g.Title != w.Title || g.Text != w.Text || g.DateHappened != w.DateHappened || g.AggregationKey != w.AggregationKey || g.SourceTypeName != w.SourceTypeName || g.Priority != w.Priority || g.AlertType != w.AlertType || g.Source != w.Source || fmt.Sprint(gt) != fmt.Sprint([]string(w.Tags)) {
		return fmt.Sprintf("got %+v tags %v, want %+v", g, gt, w)
	}
	return ""
}

func scheck(c scfg, r *run, outcomes map[string]struct{}) func(*vsched.Exec, vsched.Outcome) (string, string) {
	if c.HTTPFwd {
		return httpFwdCheck(r)
	}
	return func(x *vsched.Exec, o vsched.Outcome) (string, string) {
		if o.Kind != "ok" {
			return o.Kind, o.Kind + ": " + o.Detail
		}
		if r.waitBad != "" {
			return "wait-for-events", r.waitBad
		}
		if c.Waiter && !r.waitRet {
			return "wait-never-returned", "WaitForEvents did not return at quiescence"
		}
		var order strings.Builder
		for _, b := range r.backs {
			seen := map[string]int{}
			for _, g := range b.got {
				seen[g.Title]++
				order.WriteString(g.Title + ",")
			}
			order.WriteString("/")
			for id := 0; id < r.sent; id++ {
				t := fmt.Sprintf("e%d", id)
				if seen[t] != 1 {
					return "not-exactly-once", fmt.Sprintf("event %s was delivered %d times to backend %s", t, seen[t], b.name)
				}
			}
			if seen["x0"] > 1 {
				return "not-exactly-once", fmt.Sprintf("the event of the cancelled request was delivered %d times to backend %s", seen["x0"], b.name)
			}
			for _, g := range b.got {
				if g.Title == "x0" {
					continue
				}
				var id int
				fmt.Sscanf(g.Title, "e%d", &id)
				cloud := 0
				if c.Cloud {
					cloud = r.outcome
				}
				w, _ := wantEvent(eventLine(id), cloud)
				if d := sameEvent(g, w); d != "" {
					return "event-fields", fmt.Sprintf("backend %s: %s", b.name, d)
				}
			}
		}
		if r.maxInFly > int(c.Concurrent) {
			return "too-many-concurrent-events", fmt.Sprintf("%d SendEvent calls in flight, limit %d", r.maxInFly, c.Concurrent)
		}
		if r.maxInFly > 1 {
			x.Note("concurrent-send-events")
		}
		outcomes[c.String()+order.String()+fmt.Sprint(r.outcome, r.table)] = struct{}{}
		return "", ""
	}
}

func sconfigs() []scfg {
	cs := []scfg{
		{Backends: 1, Concurrent: 1, Senders: []int{1, 1}, Waiter: true}, {Backends: 2, Concurrent: 1, Senders: []int{1}, Waiter: true}, {Backends: 2, Concurrent: 2, Senders: []int{1}, Cloud: true, Waiter: true}, {Backends: 1, Concurrent: 1, Senders: []int{2}, Cloud: true, Waiter: true}, {Backends: 0, Concurrent: 1, Senders: []int{1}, Waiter: true},
		// as many failed sends as there are event slots, then one more event
		{Backends: 1, Concurrent: 1, Senders: []int{2}, Waiter: true, Timeouts: 1}, {Backends: 1, Concurrent: 2, Senders: []int{3}, Timeouts: 2},
		// an event whose request context ends while it waits for a free event slot (or at any other point)
		{Backends: 1, Concurrent: 1, HTTPFwd: true},
		{Backends: 1, Concurrent: 1, Senders: []int{1}, Waiter: true, Cancel: true}, {Backends: 2, Concurrent: 1, Senders: []int{}, Waiter: true, Cancel: true},
	}
	if vrt.Thorough() {
		cs = append(cs, scfg{Backends: 2, Concurrent: 1, Senders: []int{2}, Waiter: true}, scfg{Backends: 2, Concurrent: 2, Senders: []int{1, 1}, Cloud: true, Waiter: true}, scfg{Backends: 2, Concurrent: 1, Senders: []int{2, 1}, Waiter: true}, scfg{Backends: 1, Concurrent: 2, Senders: []int{2, 2}, Cloud: true},
			scfg{Backends: 2, Concurrent: 1, Senders: []int{1}, Waiter: true, Cancel: true}, scfg{Backends: 1, Concurrent: 2, Senders: []int{2}, Cloud: true, Waiter: true, Cancel: true})
	}
	return cs
}

type sreplay struct {
	Cfg     scfg
	Choices []vsched.TransKey
}

// ---------------------------------------------------------------------------------------------
// enum: event lines through the chain (one schedule), the HTTP route and forwarder mode

var titles = []string{"t", "a|b", "x\\ny", "é"}
var texts = []string{"", "x", "p|q", "l1\\nl2", "a\\nb\\nc", "\\nhead", "\\n"}
var eattrs = []string{"d:12", "h:host", "k:key", "p:low", "p:normal", "s:src", "t:error", "t:warning", "t:success", "t:info", "#t1,t2:v", "#dup,env:test", "x:unk"}

type bridge struct {
	router http.Handler
	codes  []int
}

func (b *bridge) RoundTrip(req *http.Request) (*http.Response, error) {
	if err := req.Context().Err(); err != nil {
		return nil, err // a real transport does not send a request whose context is already done
	}
	w := httptest.NewRecorder()
	b.router.ServeHTTP(w, req)
	b.codes = append(b.codes, w.Code)
	return w.Result(), nil
}

var res *vrt.Result
var accepted = map[string]struct{}{}

func enumLine(line string) {
	w0, ok := wantEvent(line, 0)
	if !ok {
		return
	}
	accepted[line] = struct{}{}
	for mode := 0; mode < 4; mode++ {
		res.Evaluations++
		r := &run{tableObj: new(int), logObj: new(int)}
		var got []gostatsd.Event
		var problem string
		var before, after time.Time
		httpNoDate := false
		o := vsched.RunOnce(func() {
			ctx, _ := fx.NewClock(context.Background())
			w := vsched.EnvGet("clock").(clock.Clock)
			clock.VerifDefault = w
			backoff.VerifNow = func() time.Time { return w.Now() }
			b := &evBackend{name: "b0", r: r}
			bh := statsd.NewBackendHandler([]gostatsd.Backend{b}, 1, 1, 1, statsd.AggregatorFactoryFunc(func() statsd.Aggregator {
				return statsd.NewMetricAggregator(nil, 0, 0, 0, 0, gostatsd.TimerSubtypes{}, 0)
			}))
			chain := statsd.NewTagHandler(bh, append(gostatsd.Tags{}, static...), metricFilters)
			var head gostatsd.PipelineHandler = chain
			var br *bridge
			if mode == 2 || mode == 3 {
				// forwarder mode: parser (2) or HTTP ingestion (3) -> tag stage -> forwarder -> upstream ingestion -> upstream chain
				rt, err := fx.IngestionRouter(chain, "rx")
				if err != nil {
					problem = err.Error()
					return
				}
				br = &bridge{router: rt}
				v := viper.New()
				pool := transport.NewTransportPool(fx.Quiet(), v)
				hc, _ := pool.Get("default")
				hc.Client.Transport = br
				hc.Client.Timeout = 0
				fwd, err := statsd.NewHttpForwarderHandlerV2(fx.Quiet(), "default", "http://up.invalid", 1, 1, 1, false, "zlib", 0, time.Second, time.Second, nil, nil, pool, nil)
				if err != nil {
					problem = err.Error()
					return
				}
				vsched.GoNamed("fwd.Run", func() { fwd.Run(ctx) })
				head = statsd.NewTagHandler(fwd, nil, nil)
			}
			switch mode {
			case 0, 2:
				in := make(chan []*statsd.Datagram)
				p := statsd.NewDatagramParser(in, "", false, 0, head, 0, false, fx.Quiet())
				vsched.GoNamed("parser", func() { p.Run(ctx) })
				vsched.Send(in, []*statsd.Datagram{{IP: ip, Msg: []byte(line), Timestamp: 9, DoneFunc: func() {}}})
				vsched.Send(in, []*statsd.Datagram(nil))
			case 1, 3:
				// HTTP ingestion of the same event (3: on an instance that forwards it upstream)
				rt, err := fx.IngestionRouter(head, "rx")
				if err != nil {
					problem = err.Error()
					return
				}
				_, e := lineref.ParseEvent(line)
				// the date travels as the sender gave it: absent (0) when the line has none - the receiving end then uses the receipt time
				msg := &pb.EventV2{Title: w0.Title, Text: w0.Text, DateHappened: e.Date, Hostname: ip, AggregationKey: w0.AggregationKey, SourceTypeName: w0.SourceTypeName}
				httpNoDate = e.Date == 0
				msg.Tags = e.Tags
				if w0.Priority == gostatsd.PriLow {
					msg.Priority = pb.EventV2_Low
				}
				msg.Type = map[gostatsd.AlertType]pb.EventV2_AlertType{gostatsd.AlertInfo: pb.EventV2_Info, gostatsd.AlertWarning: pb.EventV2_Warning, gostatsd.AlertError: pb.EventV2_Error, gostatsd.AlertSuccess: pb.EventV2_Success}[w0.AlertType]
				raw, _ := proto.Marshal(msg)
				rec := httptest.NewRecorder()
				// net/http cancels the request's context as soon as the handler has returned
				rctx, rcancel := context.WithCancel(ctx)
				before = time.Now()
				rt.ServeHTTP(rec, httptest.NewRequest("POST", "/v2/event", bytes.NewReader(raw)).WithContext(rctx))
				after = time.Now()
				vsched.Cancel(rcancel)
				if rec.Code != 202 {
					problem = fmt.Sprintf("/v2/event answered %d", rec.Code)
				}
			}
			head.WaitForEvents()
			vsched.Quiesce("done")
			got = b.got
		})
		bad := func(kind, msg string) {
			res.Violate(kind+" "+[]string{"udp", "http", "udp-on-forwarder", "http-on-forwarder"}[mode], fmt.Sprintf("%s: mode %d (0 udp, 1 http, 2 udp on a forwarder, 3 http on a forwarder) line %q: %s", kind, mode, line, msg), map[string]any{"line": line})
		}
		if problem != "" {
			bad("setup", problem)
			continue
		}
		if o.Kind != "ok" {
			bad("outcome-"+o.Kind, o.Detail+"\n"+o.Stack)
			continue
		}
		if len(got) != 1 {
			bad("event-count", fmt.Sprintf("%d events reached the backend", len(got)))
			continue
		}
		want := w0
		if (mode == 1 || mode == 3) && httpNoDate {
			// the HTTP receiver runs on the wall clock: "receipt time" is any instant of the request
			if ts := got[0].DateHappened; ts >= before.Unix() && ts <= after.Unix() {
				want.DateHappened = ts
			} else {
				bad("event-date", fmt.Sprintf("event without a date received over HTTP between %d and %d (unix seconds) was delivered with date %d, want the receipt time", before.Unix(), after.Unix(), ts))
				continue
			}
		}
		if d := sameEvent(got[0], want); d != "" {
			bad("event-fields", d)
		}
	}
}

func seqs(menu []string, maxLen int, f func([]string)) {
	var rec func(cur []string)
	rec = func(cur []string) {
		f(cur)
		if len(cur) == maxLen {
			return
		}
		for _, m := range menu {
			rec(append(cur, m))
		}
	}
	rec(nil)
}

func enum() {
	maxA := 2
	if vrt.Thorough() {
		maxA = 3
	}
	var i int64
	for _, ti := range titles {
		for _, tx := range texts {
			seqs(eattrs, maxA, func(as []string) {
				i++
				if !vrt.Mine(i) {
					return
				}
				line := fmt.Sprintf("_e{%d,%d}:%s|%s", len(ti), len(tx), ti, tx)
				if len(as) > 0 {
					line += "|" + strings.Join(as, "|")
				}
				enumLine(line)
			})
		}
	}
	res.Sample(map[string]any{"family": "enum", "line": "_e{4,6}:x\\ny|l1\\nl2|p:low|#dup,env:test", "modes": []string{"udp", "http", "forwarder"}})
}

func main() {
	res = vrt.Init()
	if *vrt.ReplayPath != "" {
		if *vrt.Sub == "sched" {
			var rp sreplay
			vrt.LoadReplay(&rp)
			r := &run{}
			o, key, msg, trace := vsched.Replay(vsched.Config{Body: sbody(rp.Cfg, r), Check: scheck(rp.Cfg, r, map[string]struct{}{})}, rp.Choices)
			fmt.Println(strings.Join(trace, "\n"))
			fmt.Printf("outcome=%s key=%s\n%s\n", o.Kind, key, msg)
			if msg != "" {
				fmt.Printf("VIOLATION property=C19 replay=%s\n", *vrt.ReplayPath)
				os.Exit(1)
			}
			return
		}
		var rp struct{ Line string }
		var hw struct {
			HttpWholeServer, ShutdownWait bool
			ShutdownEvent                 string
		}
		vrt.LoadReplay(&rp)
		vrt.LoadReplay(&hw)
		if hw.HttpWholeServer {
			httpWholeServer(res)
		} else if hw.ShutdownWait {
			checkShutdownWait()
		} else if hw.ShutdownEvent != "" {
			runShutdownEventCase(hw.ShutdownEvent)
		} else {
			enumLine(rp.Line)
		}
		for _, v := range res.Violations {
			fmt.Println(v.Key, "\n ", v.Msg)
		}
		if len(res.Violations) > 0 {
			fmt.Printf("VIOLATION property=C19 replay=%s\n", *vrt.ReplayPath)
			os.Exit(1)
		}
		return
	}
	outcomes := map[string]struct{}{}
	switch *vrt.Sub {
	case "sched":
		for i, c := range sconfigs() {
			if vrt.Expired() {
				res.Exhaustive = false
				break
			}
			r := &run{}
			st := vsched.Explore(vsched.Config{Name: c.String(), Deadline: vrt.Deadline(), Shard: *vrt.Shard, NShards: *vrt.NShards, SplitLvl: 3,
				StatesOut: fmt.Sprintf("states_%d_%d.bin", i, *vrt.Shard), Body: sbody(c, r), Check: scheck(c, r, outcomes)})
			res.Evaluations += st.Executions
			res.Traces += st.Executions
			res.Transitions += st.Transitions
			res.States += st.States
			res.Counters["state_keys_seen_beyond_the_kept_set"] += st.StatesBeyondCap
			res.Counters["sleep_blocked"] += st.SleepBlocked
			for k, v := range st.Notes {
				res.Counters["note."+k] += v
			}
			if !st.Exhaustive {
				res.Exhaustive = false
			}
			res.Info[c.String()] = fmt.Sprintf("execs=%d exhaustive=%v", st.Executions, st.Exhaustive)
			for _, v := range st.Violations {
				res.Violate(v.Key+" "+c.String(), v.Msg+"\ntrace:\n"+strings.Join(v.Trace, "\n"), sreplay{c, v.Choices})
			}
			if i == 0 {
				for _, t := range st.SampleTraces {
					res.Sample(map[string]any{"config": c.String(), "schedule": t})
				}
			}
		}
		res.SetDistinctKeys(outcomes)
	case "enum":
		enum()
		if *vrt.Shard == 0 && !vsched.Free() && vsched.FreeRuns == 0 {
			httpWholeServer(res)
			checkShutdownWait()
			for _, st := range []string{gostatsd.StatserInternal, gostatsd.StatserLogging, gostatsd.StatserNull} {
				runShutdownEventCase(st)
			}
		}
		res.SetDistinctKeys(accepted)
		res.States = int64(len(accepted))
		res.Transitions = res.Evaluations
		res.Traces = res.Evaluations
	}
	res.Finish()
}
