// C03: no network input can crash or wedge ingestion.
package main

import (
	"bytes"
	"context"
	"fmt"
	"io"
	"math"
	"net"
	"net/http"
	"net/http/httptest"
	"os"
	"runtime/debug"
	"strings"
	"sync"
	"sync/atomic"
	"time"

	"google.golang.org/protobuf/proto"

	"github.com/atlassian/gostatsd"
	"github.com/atlassian/gostatsd/internal/verif/lib/fx"
	"github.com/atlassian/gostatsd/internal/verif/vrt"
	"github.com/atlassian/gostatsd/pb"
	"github.com/atlassian/gostatsd/pkg/fakesocket"
	"github.com/atlassian/gostatsd/pkg/statsd"
	"github.com/atlassian/gostatsd/pkg/web"
)

var res *vrt.Result
var nontrivial int64
var progress atomic.Int64
var current atomic.Value // description of the input being processed

// ---------------------------------------------------------------------------------------------
// datagram side

type parserRig struct {
	in   chan []*statsd.Datagram
	rec  *fx.Recorder
	dp   *statsd.DatagramParser
	died chan string
}

func newRig() *parserRig {
	r := &parserRig{in: make(chan []*statsd.Datagram), rec: &fx.Recorder{}, died: make(chan string, 1)}
	r.dp = statsd.NewDatagramParser(r.in, "", false, 0, r.rec, 0, false, fx.Quiet())
	go func() {
		defer func() {
			if p := recover(); p != nil {
				r.died <- fmt.Sprintf("%v\n%s", p, debug.Stack())
			}
		}()
		r.dp.Run(context.Background())
	}()
	return r
}

var rig *parserRig

func countLines(d []byte) uint64 {
	if len(d) == 0 {
		return 0
	}
	n := uint64(bytes.Count(d, []byte{'\n'})) + 1
	if d[len(d)-1] == '\n' {
		n--
	}
	return n
}

func keyOfPanic(s string) string {
	l := strings.SplitN(s, "\n", 2)[0]
	// drop concrete numbers so that one defect is one key
	var b strings.Builder
	for _, c := range l {
		if c >= '0' && c <= '9' {
			c = '9'
		}
		b.WriteRune(c)
	}
	return b.String()
}

func feed(d []byte) {
	res.Evaluations++
	progress.Add(1)
	current.Store(fmt.Sprintf("datagram %q", trunc(d)))
	m0, e0, b0 := rig.dp.VerifCounters()
	rig.rec.Reset()
	msg := append([]byte{}, d...)
	send := func(b []*statsd.Datagram) bool {
		select {
		case rig.in <- b:
			return true
		case p := <-rig.died:
			res.Violate("datagram-panic "+keyOfPanic(p), fmt.Sprintf("datagram %q crashed the parser goroutine: %s", trunc(d), p), map[string]any{"kind": "datagram", "bytes": d})
			rig = newRig()
			return false
		}
	}
	if !send([]*statsd.Datagram{{IP: "1.2.3.4", Msg: msg, Timestamp: 1, DoneFunc: func() {}}}) {
		return
	}
	if !send(nil) { // accepted only after the first batch was processed completely
		return
	}
	m1, e1, b1 := rig.dp.VerifCounters()
	lines := countLines(d)
	if (m1-m0)+(e1-e0)+(b1-b0) != lines {
		res.Violate("datagram-accounting", fmt.Sprintf("datagram %q: %d lines but %d metrics + %d events + %d bad lines", trunc(d), lines, m1-m0, e1-e0, b1-b0), map[string]any{"kind": "datagram", "bytes": d})
	}
	if uint64(len(rig.rec.Events)) != e1-e0 {
		res.Violate("datagram-events", fmt.Sprintf("datagram %q: %d events counted, %d dispatched", trunc(d), e1-e0, len(rig.rec.Events)), map[string]any{"kind": "datagram", "bytes": d})
	}
	if (m1-m0) > 0 && len(rig.rec.Maps) != 1 {
		res.Violate("datagram-dispatch", fmt.Sprintf("datagram %q: %d metrics parsed, %d maps dispatched", trunc(d), m1-m0, len(rig.rec.Maps)), map[string]any{"kind": "datagram", "bytes": d})
	}
	if m1-m0+e1-e0 > 0 {
		nontrivial++
	}
}

// ---- the receiver in front of the parser: datagrams are read by the real DatagramReceiver from a scripted
// PacketConn (one ReadFrom per datagram, sizes from 0 to the 64 KiB buffer) and handed to the real parser.

type scriptConn struct {
	ch     chan []byte
	closed chan struct{}
}

type scriptAddr struct{}

func (scriptAddr) Network() string { return "udp" }
func (scriptAddr) String() string  { return "1.2.3.4:9" }

func (c *scriptConn) ReadFrom(b []byte) (int, net.Addr, error) {
	select {
	case d := <-c.ch:
		return copy(b, d), &net.UDPAddr{IP: net.IPv4(1, 2, 3, 4), Port: 9}, nil
	case <-c.closed:
		return 0, nil, fakesocket.ErrClosedConnection
	}
}
func (c *scriptConn) WriteTo([]byte, net.Addr) (int, error) { return 0, nil }
func (c *scriptConn) Close() error                          { return nil }
func (c *scriptConn) LocalAddr() net.Addr                   { return scriptAddr{} }
func (c *scriptConn) SetDeadline(time.Time) error           { return nil }
func (c *scriptConn) SetReadDeadline(time.Time) error       { return nil }
func (c *scriptConn) SetWriteDeadline(time.Time) error      { return nil }

// lockedSink records the counter names dispatched by the parser (read while the parser keeps working)
type lockedSink struct {
	mu    sync.Mutex
	names map[string]int
}

func (l *lockedSink) EstimatedTags() int                             { return 0 }
func (l *lockedSink) WaitForEvents()                                 {}
func (l *lockedSink) DispatchEvent(context.Context, *gostatsd.Event) {}
func (l *lockedSink) DispatchMetricMap(_ context.Context, mm *gostatsd.MetricMap) {
	l.mu.Lock()
	defer l.mu.Unlock()
	for n := range mm.Counters {
		l.names[n]++
	}
}
func (l *lockedSink) take(name string) int {
	l.mu.Lock()
	defer l.mu.Unlock()
	n := l.names[name]
	delete(l.names, name)
	return n
}

type recvRig struct {
	in   chan []*statsd.Datagram
	died chan string
	sink *lockedSink
	conn *scriptConn
}

func newRecvRig() *recvRig {
	r := &recvRig{in: make(chan []*statsd.Datagram), died: make(chan string, 2), sink: &lockedSink{names: map[string]int{}}, conn: &scriptConn{ch: make(chan []byte), closed: make(chan struct{})}}
	dp := statsd.NewDatagramParser(r.in, "", false, 0, r.sink, 0, false, fx.Quiet())
	go func() {
		defer func() {
			if p := recover(); p != nil {
				r.died <- fmt.Sprintf("%v\n%s", p, debug.Stack())
			}
		}()
		dp.Run(context.Background())
	}()
	dr := statsd.NewDatagramReceiver(r.in, nil, 1, 2)
	go func() {
		defer func() {
			if p := recover(); p != nil {
				r.died <- fmt.Sprintf("%v\n%s", p, debug.Stack())
			}
		}()
		dr.Receive(context.Background(), r.conn)
	}()
	return r
}

var rrig *recvRig

// feedReceiver pushes d and three sentinels through the receiver. The receiver asks for its fourth
// datagram only after the parser took the third, i.e. after d and the first sentinel were parsed
// completely: no clock is involved.
func feedReceiver(d []byte) {
	res.Evaluations++
	progress.Add(1)
	current.Store(fmt.Sprintf("datagram %q through the receiver", trunc(d)))
	for k, x := range [][]byte{d, []byte("sentinel.a:1|c"), []byte("sentinel.b:1|c"), []byte("sentinel.c:1|c")} {
		select {
		case rrig.conn.ch <- x:
		case p := <-rrig.died:
			res.Violate("receiver-panic "+keyOfPanic(p), fmt.Sprintf("datagram %q read by the receiver crashed ingestion (while datagram %d of the group was offered): %s", trunc(d), k, p), map[string]any{"kind": "receiver", "bytes": d})
			close(rrig.conn.closed)
			rrig = newRecvRig()
			return
		}
	}
	if rrig.sink.take("sentinel.a") != 1 {
		res.Violate("receiver-not-continuing", fmt.Sprintf("after datagram %q the next datagram was not parsed", trunc(d)), map[string]any{"kind": "receiver", "bytes": d})
	}
	nontrivial++
}

func receiverFamily() {
	rrig = newRecvRig()
	feedReceiver(nil)
	feedReceiver([]byte{})
	alpha := []byte("a:|1c\n\x00_e{},")
	var i int64
	for _, c1 := range alpha {
		feedReceiver([]byte{c1})
		for _, c2 := range alpha {
			i++
			if vrt.Mine(i) {
				feedReceiver([]byte{c1, c2})
				feedReceiver([]byte{c1, c2, '\n'})
			}
		}
	}
	if *vrt.Shard == 0 {
		for _, n := range []int{1, 1471, 1472, 1473, 8191, 8192, 65506, 65507, 65534, 65535, 65536, 70000} {
			feedReceiver(bytes.Repeat([]byte("a"), n))
			feedReceiver(append(bytes.Repeat([]byte("a:1|c\n"), n/6), bytes.Repeat([]byte("\n"), n%6)...))
		}
		for _, seq := range [][][]byte{{{}, {}, {}}, {[]byte("a:1|c"), {}, []byte("b:1|c")}, {{}, []byte("_e{1,1}:a|b"), {}}} {
			for _, d := range seq {
				feedReceiver(d)
			}
		}
	}
	res.Sample(map[string]any{"family": "receiver", "datagram": ""})
}

func trunc(d []byte) []byte {
	if len(d) > 120 {
		return append(append([]byte{}, d[:100]...), []byte(fmt.Sprintf("...(%d bytes)", len(d)))...)
	}
	return d
}

func datagramFamilies() {
	rig = newRig()
	alpha := []byte("a:|1.-cms@#,_e {}9\n\x00")
	L := 5
	if vrt.Thorough() {
		L = 6
	}
	res.Info["sigma_max_len"] = L
	buf := make([]byte, 0, L)
	var rec func()
	rec = func() {
		if vrt.Stop() {
			return
		}
		feed(buf)
		if len(buf) == L {
			return
		}
		for _, c := range alpha {
			buf = append(buf, c)
			rec()
			buf = buf[:len(buf)-1]
		}
	}
	var i int64
	for _, c1 := range alpha {
		for _, c2 := range alpha {
			i++
			if !vrt.Mine(i) {
				continue
			}
			buf = append(buf[:0], c1, c2)
			rec()
		}
	}
	if *vrt.Shard == 0 {
		feed(nil)
		for _, c := range alpha {
			feed([]byte{c})
		}
	}
	// event header boundary family
	nums := []string{"0", "1", "5", "2147483647", "2147483648", "4294967289", "4294967290", "4294967291", "4294967292", "4294967293", "4294967294", "4294967295", "4294967296", "4294967297", "9223372036854775807", "9223372036854775808", "18446744073709551615", "18446744073709551616", "100000000000000000000", "00000000000000000001"}
	bodies := []string{"", "a", "|", "a|", "|b", "a|b", "ab|cd", "abcde|xyz", "abcde|xyz|", "abcde|xyz|d:1", "aaaa|bbbb|#t", "a|b\nc:1|c", "abcdefghij|"}
	for _, n := range nums {
		for _, m := range nums {
			for _, b := range bodies {
				for _, pre := range []string{"_e{%s,%s}:%s", "_e{%s,%s}%s", "x:1|c\n_e{%s,%s}:%s\ny:2|c"} {
					i++
					if vrt.Mine(i) {
						feed([]byte(fmt.Sprintf(pre, n, m, b)))
					}
				}
			}
		}
	}
	// long lines of a single byte class, around powers of two
	for _, c := range []byte("a:|1@#,_{ \x00") {
		for p := 1; p <= 65536; p *= 2 {
			for _, d := range []int{-1, 0, 1} {
				n := p + d
				if n < 1 || n > 65535 {
					continue
				}
				i++
				if !vrt.Mine(i) {
					continue
				}
				feed(bytes.Repeat([]byte{c}, n))
				feed(append([]byte("a:1|c|#"), bytes.Repeat([]byte{c}, n)...))
				feed(append(bytes.Repeat([]byte{c}, n), []byte(":1|c")...))
			}
		}
	}
	res.Sample(map[string]any{"family": "boundary", "datagram": "_e{5,4294967290}:abcde|xyz"})
	res.Sample(map[string]any{"family": "sigma", "datagram": "a:1|c\n\x00"})
}

// ---------------------------------------------------------------------------------------------
// HTTP side

var router http.Handler
var httpRec *fx.Recorder
var goodMetric, goodEvent []byte

func setupHTTP() {
	httpRec = &fx.Recorder{}
	rt, err := fx.IngestionRouter(httpRec, "t")
	if err != nil {
		panic(err)
	}
	router = rt
	goodMetric, _ = proto.Marshal(&pb.RawMessageV2{Counters: map[string]*pb.CounterTagV2{"c": {TagMap: map[string]*pb.RawCounterV2{"": {Value: 1}}}}})
	goodEvent, _ = proto.Marshal(&pb.EventV2{Title: "t", Text: "x"})
}

func post(path, enc string, body []byte) (code int, panicked string) {
	defer func() {
		if p := recover(); p != nil {
			panicked = fmt.Sprintf("%v\n%s", p, debug.Stack())
		}
	}()
	req := httptest.NewRequest("POST", path, bytes.NewReader(body))
	if enc != "-" {
		req.Header.Set("Content-Encoding", enc)
	}
	if chunked {
		// Transfer-Encoding: chunked - the length of the body is not known in advance
		req.ContentLength = -1
		req.TransferEncoding = []string{"chunked"}
		req.Body = io.NopCloser(bytes.NewReader(body))
	}
	w := httptest.NewRecorder()
	router.ServeHTTP(w, req)
	return w.Code, ""
}

var chunked bool

func httpCase(body []byte) {
	var z, l bytes.Buffer
	web.CompressWithZlib(body, &z, 1)
	web.CompressWithLz4(body, &l, 1)
	type enc struct {
		name string
		data []byte
	}
	encs := []enc{{"-", body}, {"identity", body}, {"", body}, {"deflate", z.Bytes()}, {"deflate", body}, {"lz4", l.Bytes()}, {"lz4", body}, {"gzip", body}, {strings.Repeat("x", 70), body},
		// unknown encodings around the length at which the handler shortens them for its log line
		{strings.Repeat("y", 63), body}, {strings.Repeat("y", 64), body}, {strings.Repeat("y", 65), body}}
	for _, path := range []string{"/v2/raw", "/v2/event"} {
		for _, e := range encs {
			res.Evaluations++
			progress.Add(1)
			current.Store(fmt.Sprintf("POST %s enc=%q body=%q", path, e.name, trunc(e.data)))
			httpRec.Reset()
			rp := map[string]any{"kind": "http", "path": path, "enc": e.name, "bytes": e.data}
			code, p := post(path, e.name, e.data)
			if p != "" {
				res.Violate("http-panic "+keyOfPanic(p), fmt.Sprintf("POST %s enc=%q body=%q panicked: %s", path, e.name, trunc(e.data), p), rp)
				continue
			}
			switch code {
			case 202:
				nontrivial++
			case 400, 500:
				if len(httpRec.Maps)+len(httpRec.Events) != 0 {
					res.Violate("http-dispatch-on-error", fmt.Sprintf("POST %s enc=%q body=%q answered %d but dispatched data", path, e.name, trunc(e.data), code), rp)
				}
			default:
				res.Violate("http-status", fmt.Sprintf("POST %s enc=%q body=%q answered %d", path, e.name, trunc(e.data), code), rp)
			}
			// processing continues: a known-good request is served
			good := goodMetric
			if path == "/v2/event" {
				good = goodEvent
			}
			httpRec.Reset()
			if c2, p2 := post(path, "-", good); p2 != "" || c2 != 202 || len(httpRec.Maps)+len(httpRec.Events) != 1 {
				res.Violate("http-not-continuing", fmt.Sprintf("after POST %s enc=%q body=%q a good request got %d %s", path, e.name, trunc(e.data), c2, p2), rp)
			}
		}
	}
}

func httpFamilies() {
	setupHTTP()
	alpha := []byte{0x00, 0x01, 0x08, 0x0a, 0x12, 0x1a, 0x22, 0x7f, 0x80, 0xff}
	L := 5
	if vrt.Thorough() {
		L = 6
	}
	res.Info["http_max_len"] = L
	buf := make([]byte, 0, L)
	var rec func()
	rec = func() {
		if vrt.Stop() {
			return
		}
		httpCase(buf)
		if len(buf) == L {
			return
		}
		for _, c := range alpha {
			buf = append(buf, c)
			rec()
			buf = buf[:len(buf)-1]
		}
	}
	var i int64
	for _, c1 := range alpha {
		for _, c2 := range alpha {
			i++
			if !vrt.Mine(i) {
				continue
			}
			buf = append(buf[:0], c1, c2)
			rec()
		}
	}
	if *vrt.Shard == 0 {
		httpCase(nil)
		for _, c := range alpha {
			httpCase([]byte{c})
		}
		// the same small and valid bodies again, sent without a Content-Length
		chunked = true
		httpCase(nil)
		for _, c1 := range alpha {
			httpCase([]byte{c1})
			for _, c2 := range alpha {
				httpCase([]byte{c1, c2})
			}
		}
		for _, g := range [][]byte{goodMetric, goodEvent} {
			httpCase(g)
		}
		chunked = false
		// every truncation of valid messages
		for _, g := range [][]byte{goodMetric, goodEvent} {
			for k := 0; k <= len(g); k++ {
				httpCase(g[:k])
			}
		}
	}
	res.Sample(map[string]any{"family": "http", "path": "/v2/raw", "enc": "deflate", "body": []byte{0x0a, 0x12, 0xff}})
}

// ---- structured request bodies: well-formed protobuf of every shape the schema allows for one series
// (absent / empty / populated repeated fields, absent inner messages, odd numbers, odd tags), posted in
// ordered pairs under each encoding; whatever the endpoint accepts and dispatches is consumed the way
// the server consumes it - merged into one real aggregator, flushed, reset, flushed again - because a
// crash there terminates the process just as a crash in the request handler would.

func structuredShapes() []*pb.RawMessageV2 {
	var out []*pb.RawMessageV2
	tagLists := [][]string{nil, {"t"}, {""}, {"gsd_histogram:1_5"}, {"gsd_histogram:x"}}
	nan, inf := math.NaN(), math.Inf(1)
	_ = inf
	k := 0
	pick := func() ([]string, string) {
		k++
		return tagLists[k%len(tagLists)], []string{"", "h"}[k%2]
	}
	for _, v := range []int64{0, 5, math.MinInt64} {
		t, h := pick()
		out = append(out, &pb.RawMessageV2{Counters: map[string]*pb.CounterTagV2{"n": {TagMap: map[string]*pb.RawCounterV2{"": {Value: v, Tags: t, Hostname: h}}}}})
	}
	for _, v := range []float64{0, nan, inf} {
		t, h := pick()
		out = append(out, &pb.RawMessageV2{Gauges: map[string]*pb.GaugeTagV2{"n": {TagMap: map[string]*pb.RawGaugeV2{"": {Value: v, Tags: t, Hostname: h}}}}})
	}
	for _, vs := range [][]float64{nil, {}, {1}, {nan}, {3, math.Inf(-1), 2}} {
		for _, sc := range []float64{0, 1, -1, nan} {
			for _, t := range tagLists {
				if len(t) == 1 && t[0] == "" && sc != 0 {
					continue
				}
				out = append(out, &pb.RawMessageV2{Timers: map[string]*pb.TimerTagV2{"n": {TagMap: map[string]*pb.RawTimerV2{"": {Values: vs, SampleCount: sc, Tags: t}}}}})
			}
		}
	}
	for _, vs := range [][]string{nil, {}, {""}, {"a"}, {"a", "a", "b"}} {
		t, h := pick()
		out = append(out, &pb.RawMessageV2{Sets: map[string]*pb.SetTagV2{"n": {TagMap: map[string]*pb.RawSetV2{"": {Values: vs, Tags: t, Hostname: h}}}}})
		out = append(out, &pb.RawMessageV2{Sets: map[string]*pb.SetTagV2{"n": {TagMap: map[string]*pb.RawSetV2{"": {Values: vs}}}}})
	}
	// absent inner messages and empty names
	out = append(out,
		&pb.RawMessageV2{},
		&pb.RawMessageV2{Counters: map[string]*pb.CounterTagV2{"n": {}}, Gauges: map[string]*pb.GaugeTagV2{"n": {}}, Timers: map[string]*pb.TimerTagV2{"n": {}}, Sets: map[string]*pb.SetTagV2{"n": {}}},
		&pb.RawMessageV2{Counters: map[string]*pb.CounterTagV2{"n": {TagMap: map[string]*pb.RawCounterV2{"": {}}}}, Sets: map[string]*pb.SetTagV2{"n": {TagMap: map[string]*pb.RawSetV2{"": {}}}}, Timers: map[string]*pb.TimerTagV2{"n": {TagMap: map[string]*pb.RawTimerV2{"": {}}}}, Gauges: map[string]*pb.GaugeTagV2{"n": {TagMap: map[string]*pb.RawGaugeV2{"": {}}}}},
		&pb.RawMessageV2{Counters: map[string]*pb.CounterTagV2{"": {TagMap: map[string]*pb.RawCounterV2{"x": {Value: 1}}}}},
	)
	return out
}

func consume(ag statsd.Aggregator, what string) (panicked string) {
	defer func() {
		if p := recover(); p != nil {
			panicked = fmt.Sprintf("%s: %v\n%s", what, p, debug.Stack())
		}
	}()
	for _, m := range httpRec.Maps {
		ag.ReceiveMap(m)
	}
	return ""
}

func flushTwice(ag statsd.Aggregator) (panicked string) {
	defer func() {
		if p := recover(); p != nil {
			panicked = fmt.Sprintf("flush: %v\n%s", p, debug.Stack())
		}
	}()
	for r := 0; r < 2; r++ {
		ag.Flush(time.Second)
		ag.Process(func(m *gostatsd.MetricMap) { _ = fx.Snapshot(m) })
		ag.Reset()
	}
	return ""
}

func httpStructured() {
	shapes := structuredShapes()
	var bodies [][]byte
	for _, m := range shapes {
		b, err := proto.Marshal(m)
		if err != nil {
			panic(err)
		}
		bodies = append(bodies, b)
	}
	res.Info["structured_bodies"] = len(bodies)
	var i int64
	for a := range bodies {
		for b := range bodies {
			i++
			if !vrt.Mine(i) {
				continue
			}
			for _, enc := range []string{"-", "deflate", "lz4"} {
				res.Evaluations++
				progress.Add(1)
				ag := statsd.NewMetricAggregator([]float64{90}, time.Hour, time.Hour, time.Hour, time.Hour, gostatsd.TimerSubtypes{}, 10)
				rp := map[string]any{"kind": "http-structured", "enc": enc, "a": a, "b": b}
				desc := fmt.Sprintf("POST /v2/raw enc=%q of %v then of %v", enc, shapes[a], shapes[b])
				current.Store(desc)
				failed := false
				for _, body := range [][]byte{bodies[a], bodies[b]} {
					data := body
					var buf bytes.Buffer
					switch enc {
					case "deflate":
						web.CompressWithZlib(body, &buf, 1)
						data = buf.Bytes()
					case "lz4":
						web.CompressWithLz4(body, &buf, 1)
						data = buf.Bytes()
					}
					httpRec.Reset()
					code, p := post("/v2/raw", enc, data)
					if p != "" {
						res.Violate("http-panic "+keyOfPanic(p), desc+" panicked: "+p, rp)
						failed = true
						break
					}
					if code != 202 {
						res.Violate("http-structured-status", fmt.Sprintf("%s: a well-formed message was answered %d", desc, code), rp)
						failed = true
						break
					}
					if p := consume(ag, "merging what the endpoint dispatched"); p != "" {
						res.Violate("http-accepted-body-crashes-pipeline "+keyOfPanic(p), desc+": "+p, rp)
						failed = true
						break
					}
				}
				if failed {
					continue
				}
				if p := flushTwice(ag); p != "" {
					res.Violate("http-accepted-body-crashes-flush "+keyOfPanic(p), desc+": "+p, rp)
					continue
				}
				nontrivial++
			}
		}
	}
}

// structured /v2/event bodies: every field absent / empty / populated, and enum fields inside and outside the
// declared range (proto3 enums are open: any int32 decodes)
func httpStructuredEvents() {
	var bodies [][]byte
	for _, pr := range []int32{0, 1, 2, 127, -1} {
		for _, ty := range []int32{0, 1, 2, 3, 4, 100, -1} {
			for k := 0; k < 3; k++ {
				e := &pb.EventV2{Priority: pb.EventV2_EventPriority(pr), Type: pb.EventV2_AlertType(ty)}
				if k >= 1 {
					e.Title, e.Text, e.DateHappened, e.Hostname, e.AggregationKey, e.SourceTypeName, e.Tags = "t", "x\ny", -5, "h", "k", "s", []string{"", "a:b"}
				}
				if k == 2 {
					e.Title, e.Tags = "", []string{}
				}
				b, err := proto.Marshal(e)
				if err != nil {
					panic(err)
				}
				bodies = append(bodies, b)
			}
		}
	}
	res.Info["structured_event_bodies"] = len(bodies)
	for i, body := range bodies {
		if !vrt.Mine(int64(i + 1)) {
			continue
		}
		for _, enc := range []string{"-", "deflate", "lz4"} {
			res.Evaluations++
			progress.Add(1)
			data := body
			var buf bytes.Buffer
			switch enc {
			case "deflate":
				web.CompressWithZlib(body, &buf, 1)
				data = buf.Bytes()
			case "lz4":
				web.CompressWithLz4(body, &buf, 1)
				data = buf.Bytes()
			}
			desc := fmt.Sprintf("POST /v2/event enc=%q body=%x", enc, body)
			current.Store(desc)
			rp := map[string]any{"kind": "http-structured-event", "enc": enc, "bytes": data}
			httpRec.Reset()
			code, p := post("/v2/event", enc, data)
			if p != "" {
				res.Violate("http-panic "+keyOfPanic(p), desc+" (a well-formed event) panicked: "+p, rp)
				continue
			}
			if code != 202 && code != 400 {
				res.Violate("http-status", fmt.Sprintf("%s answered %d", desc, code), rp)
			}
			if code == 202 && len(httpRec.Events) != 1 {
				res.Violate("http-event-count", fmt.Sprintf("%s answered 202 but %d events were dispatched", desc, len(httpRec.Events)), rp)
			}
			httpRec.Reset()
			if c2, p2 := post("/v2/event", "-", goodEvent); p2 != "" || c2 != 202 || len(httpRec.Events) != 1 {
				res.Violate("http-not-continuing", fmt.Sprintf("after %s a good request got %d %s", desc, c2, p2), rp)
			}
			nontrivial++
		}
	}
}

func watchdog() {
	last := int64(-1)
	stuck := 0
	for {
		time.Sleep(5 * time.Second)
		p := progress.Load()
		if p == last {
			stuck++
		} else {
			stuck = 0
		}
		last = p
		if stuck >= 24 { // two minutes without finishing one input
			res.Violate("wedged", fmt.Sprintf("no progress for 120 s while processing %v", current.Load()), map[string]any{"kind": "wedge", "input": fmt.Sprint(current.Load())})
			res.Exhaustive = false
			res.Finish()
			os.Exit(0)
		}
	}
}

func main() {
	res = vrt.Init()
	if *vrt.ReplayPath != "" {
		var rp struct {
			Kind, Path, Enc string
			Bytes           []byte
		}
		vrt.LoadReplay(&rp)
		switch rp.Kind {
		case "datagram":
			rig = newRig()
			feed(rp.Bytes)
		case "receiver":
			rrig = newRecvRig()
			feedReceiver(rp.Bytes)
		case "http":
			setupHTTP()
			httpCase(rp.Bytes)
		case "http-structured":
			setupHTTP()
			httpStructured()
		case "http-structured-event":
			setupHTTP()
			httpStructuredEvents()
		}
		for _, v := range res.Violations {
			fmt.Println(v.Key, "\n ", v.Msg)
		}
		if len(res.Violations) > 0 {
			fmt.Printf("VIOLATION property=C03 replay=%s\n", *vrt.ReplayPath)
			os.Exit(1)
		}
		fmt.Println("no violation")
		return
	}
	go watchdog()
	switch *vrt.Sub {
	case "datagram":
		datagramFamilies()
		receiverFamily()
	case "http":
		httpFamilies()
		httpStructured()
		httpStructuredEvents()
	}
	res.DistinctNontrivial = nontrivial
	res.States = res.Evaluations
	res.Transitions = res.Evaluations
	res.Traces = res.Evaluations
	res.Finish()
}

var _ = gostatsd.COUNTER
