// C04: flushing never crashes for any reachable aggregate, configuration or backend.
package main

import (
	"context"
	"fmt"
	"math"
	"os"
	"sort"
	"strings"
	"time"

	"github.com/atlassian/gostatsd"
	"github.com/atlassian/gostatsd/internal/verif/lib/bk"
	"github.com/atlassian/gostatsd/internal/verif/lib/fx"
	"github.com/atlassian/gostatsd/internal/verif/vrt"
	"github.com/atlassian/gostatsd/internal/verif/vsched"
	"github.com/atlassian/gostatsd/pkg/statsd"
)

var res *vrt.Result

type cfg struct {
	Pcts  []float64
	Limit uint32
	Mask  int // 0 none, 1 all, 2..16 single, 17 all non-percentile, 18 all percentile
	// Expiry: the server runs with --expiry-interval=5m instead of 0, the aggregator reads the world's clock, every batch is
	// stamped with it and the alphabet has one more operation, "idle" (the clock moves on by ten minutes): the flush
	// after it expires whatever was not refreshed
	Expiry bool `json:",omitempty"`
}

var pctLists = [][]float64{nil, {90}, {-90}, {100}, {-100}, {0}, {50, -50}, {1, 99}}
var limits = []uint32{0, 1, 2, math.MaxUint32}
var subKeys = []string{"lower", "lower-pct", "upper", "upper-pct", "count", "count-pct", "count-per-second", "mean", "mean-pct", "median", "stddev", "sum", "sum-pct", "sum-squares", "sum-squares-pct"}

func disabled(mask int) (map[string]bool, gostatsd.TimerSubtypes) {
	d := map[string]bool{}
	switch {
	case mask == 1:
		for _, k := range subKeys {
			d[k] = true
		}
	case mask >= 2 && mask < 2+len(subKeys):
		d[subKeys[mask-2]] = true
	case mask == 2+len(subKeys): // every non-percentile sub-metric ("percentiles only")
		for _, k := range subKeys {
			if !strings.HasSuffix(k, "-pct") {
				d[k] = true
			}
		}
	case mask == 3+len(subKeys): // every percentile sub-metric
		for _, k := range subKeys {
			if strings.HasSuffix(k, "-pct") {
				d[k] = true
			}
		}
	}
	return d, gostatsd.TimerSubtypes{Lower: d["lower"], LowerPct: d["lower-pct"], Upper: d["upper"], UpperPct: d["upper-pct"], Count: d["count"], CountPct: d["count-pct"],
		CountPerSecond: d["count-per-second"], Mean: d["mean"], MeanPct: d["mean-pct"], Median: d["median"], StdDev: d["stddev"], Sum: d["sum"], SumPct: d["sum-pct"], SumSquares: d["sum-squares"], SumSquaresPct: d["sum-squares-pct"]}
}

// batches of the alphabet
func batch(i int, ts gostatsd.Nanotime) *gostatsd.MetricMap {
	mm := gostatsd.NewMetricMap(false)
	add := func(name string, ty gostatsd.MetricType, v float64, tags ...string) {
		mm.Receive(&gostatsd.Metric{Name: name, Type: ty, Value: v, StringValue: "m", Rate: 1, Tags: append(gostatsd.Tags{}, tags...), Source: "h", Timestamp: ts})
	}
	switch i {
	case 0:
		add("t", gostatsd.TIMER, 5)
	case 1:
		add("t", gostatsd.TIMER, 1)
		add("t", gostatsd.TIMER, 9)
	case 2:
		add("th", gostatsd.TIMER, 3, "gsd_histogram:1_5")
	case 3:
		add("th", gostatsd.TIMER, 3, "gsd_histogram:bad")
	case 4:
		add("th", gostatsd.TIMER, 15, "gsd_histogram:10__20", "k:v")
	case 5:
		add("c", gostatsd.COUNTER, 2, "k:v", "bare")
	case 6:
		add("g", gostatsd.GAUGE, 1.5)
	case 7:
		add("s", gostatsd.SET, 0, "host:zz")
	}
	return mm
}

const nBatches = 8

var opName = []string{"timer1", "timer2", "hist:1_5", "hist:bad", "hist:10__20", "counter", "gauge", "set", "flush", "idle"}

func dumpMap(mm *gostatsd.MetricMap) string {
	var parts []string
	mm.Counters.Each(func(n, k string, c gostatsd.Counter) { parts = append(parts, fmt.Sprintf("c|%s|%s|%+v", n, k, c)) })
	mm.Gauges.Each(func(n, k string, g gostatsd.Gauge) { parts = append(parts, fmt.Sprintf("g|%s|%s|%+v", n, k, g)) })
	mm.Timers.Each(func(n, k string, t gostatsd.Timer) {
		p := append(gostatsd.Percentiles{}, t.Percentiles...)
		sort.Slice(p, func(i, j int) bool { return p[i].Str < p[j].Str })
		t.Percentiles = p
		parts = append(parts, fmt.Sprintf("t|%s|%s|%+v", n, k, t))
	})
	mm.Sets.Each(func(n, k string, s gostatsd.Set) { parts = append(parts, fmt.Sprintf("s|%s|%s|%+v", n, k, s)) })
	sort.Strings(parts)
	return strings.Join(parts, "\n")
}

var batchSizes = []int{0, 1}

// runBackend sends mm through one backend variant under the scheduler; returns a violation or "".
func runBackend(kind string, bs int, c cfg, mm *gostatsd.MetricMap) string {
	d, _ := disabled(c.Mask)
	cbs := 0
	var cerr string
	o := vsched.RunOnce(func() {
		ctx, _ := fx.NewClock(context.Background())
		opts := bk.Opts{BatchSize: bs, Disabled: d, Compress: bs == 1}
		if strings.HasPrefix(kind, "otlp") && bs == 1 {
			opts.ResourceKeys = []string{"gsd_histogram", "host", "gsd_histogram"} // resource keys, one of them listed twice
		}
		if strings.HasPrefix(kind, "newrelic") && bs == 1 {
			opts.TagPrefix = "p:" // a tag prefix that itself holds a colon (accepted by the constructor)
		}
		b, err := bk.New(kind, opts)
		if err != nil {
			cerr = err.Error()
			return
		}
		if b.Run != nil {
			vsched.GoNamed("backend.Run", func() { b.Run(ctx) })
		}
		b.Backend.SendMetricsAsync(ctx, mm, func(errs []error) {
			if !vsched.Aborting() {
				cbs++
			}
		})
		vsched.Quiesce("sent")
	})
	res.Evaluations++
	if cerr != "" {
		return "construct: " + cerr
	}
	switch o.Kind {
	case "ok":
	case "panic":
		return "panic: " + o.Detail + "\n" + o.Stack
	default:
		return o.Kind + ": " + o.Detail
	}
	if cbs != 1 {
		return fmt.Sprintf("callback invoked %d times", cbs)
	}
	return ""
}

type world struct {
	ag  *statsd.MetricAggregator
	now time.Time
}

func (w *world) key() string {
	k := dumpMap(w.ag.VerifMap())
	if !w.now.IsZero() {
		k += "|now=" + fmt.Sprint(w.now.Unix())
	}
	return k
}

func newWorld(c cfg) *world {
	dkeys, _ := disabled(c.Mask)
	if c.Expiry {
		w := &world{now: time.Unix(1000, 0)}
		w.ag = statsd.VerifWiredAggregator(*verifServer([]string{verifPctArg(c.Pcts), "--expiry-interval=5m", fmt.Sprintf("--timer-histogram-limit=%d", c.Limit)}, dkeys))
		w.ag.VerifSetNow(func() time.Time { return w.now })
		return w
	}
	return &world{ag: statsd.VerifWiredAggregator(*verifServer([]string{verifPctArg(c.Pcts), "--expiry-interval=0s", fmt.Sprintf("--timer-histogram-limit=%d", c.Limit)}, dkeys))} // expiry 0: series persist, so idle flushes are reachable
}

var seenFlushed = map[string]bool{}
var nontrivial = map[string]struct{}{}

func stackKey(msg string) string {
	// first line + innermost repository frame: one key per defect site
	lines := strings.Split(msg, "\n")
	site := ""
	for _, l := range lines {
		l = strings.TrimSpace(l)
		if strings.HasPrefix(l, "/repo/") && !strings.Contains(l, "/internal/verif/") {
			site = strings.Fields(l)[0]
			break
		}
	}
	first := lines[0]
	var b strings.Builder
	for _, r := range first {
		if r >= '0' && r <= '9' {
			r = '9'
		}
		b.WriteRune(r)
	}
	return b.String() + " @" + site
}

// apply performs op on w; flush ops run all backends on maps not seen before.
func (w *world) apply(c cfg, seq []int, op int, withBackends bool) (viol string, panicMsg string) {
	defer func() {
		if p := recover(); p != nil {
			panicMsg = fmt.Sprintf("aggregator panic: %v", p)
		}
	}()
	res.Transitions++
	if op < nBatches {
		ts := gostatsd.Nanotime(7)
		if c.Expiry {
			ts = gostatsd.Nanotime(w.now.UnixNano())
		}
		w.ag.ReceiveMap(batch(op, ts))
		return
	}
	if op == nBatches+1 {
		w.now = w.now.Add(10 * time.Minute)
		return
	}
	w.ag.Flush(time.Second)
	w.ag.Process(func(mm *gostatsd.MetricMap) {
		if !withBackends {
			return
		}
		key := fmt.Sprintf("%v|%d|%d|", c.Pcts, c.Limit, c.Mask) + dumpMap(mm)
		if seenFlushed[key] {
			return
		}
		seenFlushed[key] = true
		if len(mm.Timers) > 0 {
			nontrivial[key] = struct{}{}
		}
		for _, kind := range bk.Kinds {
			for _, bs := range batchSizes {
				if m := runBackend(kind, bs, c, mm); m != "" {
					full := append(append([]int{}, seq...), op)
					res.Violate("backend "+kind+" "+stackKey(m), fmt.Sprintf("config %+v, sequence %v, backend %s batch=%d: %s", c, names(full), kind, bs, m), map[string]any{"cfg": c, "seq": full})
				}
			}
		}
	})
	w.ag.Reset()
	return
}

func names(seq []int) []string {
	var o []string
	for _, s := range seq {
		o = append(o, opName[s])
	}
	return o
}

func replaySeq(c cfg, seq []int, backendsOnLast bool) (*world, string) {
	w := newWorld(c)
	for i, op := range seq {
		_, pm := w.apply(c, seq[:i], op, backendsOnLast && i == len(seq)-1)
		if pm != "" {
			return w, pm
		}
	}
	return w, ""
}

func explore(c cfg, depth int, states map[string]struct{}) {
	frontier := [][]int{nil}
	seen := map[string]bool{newWorld(c).key(): true}
	nOps := nBatches + 1
	if c.Expiry {
		nOps++
	}
	for d := 0; d < depth && len(frontier) > 0; d++ {
		var next [][]int
		for _, seq := range frontier {
			for op := 0; op < nOps; op++ {
				ns := append(append([]int{}, seq...), op)
				w, pm := replaySeq(c, ns, true)
				if pm != "" {
					res.Violate("aggregator "+stackKey(pm), fmt.Sprintf("config %+v, sequence %v: %s", c, names(ns), pm), map[string]any{"cfg": c, "seq": ns})
					continue
				}
				k := w.key()
				states[fmt.Sprintf("%v|%d|%d|%v|%s", c.Pcts, c.Limit, c.Mask, c.Expiry, k)] = struct{}{}
				if !seen[k] {
					seen[k] = true
					next = append(next, ns)
				}
			}
		}
		frontier = next
	}
}

func main() {
	res = vrt.Init()
	if *vrt.ReplayPath != "" {
		var rp struct {
			Cfg cfg
			Seq []int
		}
		vrt.LoadReplay(&rp)
		_, pm := replaySeq(rp.Cfg, rp.Seq, true)
		if pm != "" {
			fmt.Println(pm)
		}
		for _, v := range res.Violations {
			fmt.Println(v.Key, "\n ", v.Msg)
		}
		if pm != "" || len(res.Violations) > 0 {
			fmt.Printf("VIOLATION property=C04 replay=%s\n", *vrt.ReplayPath)
			os.Exit(1)
		}
		fmt.Println("no violation")
		return
	}
	depth := 3
	if vrt.Thorough() {
		depth = 5
	}
	res.Info["depth"] = depth
	states := map[string]struct{}{}
	var i int64
	for _, p := range pctLists {
		for _, l := range limits {
			for m := 0; m < 4+len(subKeys); m++ {
				i++
				if !vrt.Mine(i) || vrt.Expired() {
					continue
				}
				explore(cfg{Pcts: p, Limit: l, Mask: m}, depth, states)
			}
			// with expiry: series that were not refreshed for ten minutes disappear at the next flush
			i++
			if vrt.Mine(i) && !vrt.Expired() {
				explore(cfg{Pcts: p, Limit: l, Expiry: true}, depth, states)
			}
		}
	}
	if vrt.Expired() {
		res.Exhaustive = false
	}
	res.Sample(map[string]any{"config": cfg{Pcts: []float64{-100}}, "sequence": []string{"hist:1_5", "flush", "flush"}, "backends": bk.Kinds})
	res.States = int64(len(states))
	res.DistinctNontrivial = int64(len(nontrivial))
	res.Traces = res.Evaluations
	res.Evaluations += res.Transitions
	res.Finish()
}
