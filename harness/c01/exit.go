package main

import "os"

var osExit = os.Exit
