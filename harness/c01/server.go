package main

// Whole-server cases: the statsd.Server value is built from a command line by cmd/gostatsd's own start-up
// code and run by Server.RunWithCustomSocket (receiver, parsers, cloud stage, tag stage, backend handler,
// aggregators, flusher, all wired by the server itself) on a scripted socket, a warm instance cache and
// a recording backend, under the controlled scheduler with the mock clock (one schedule per case: what
// is decided here is the wiring, the interleavings are explored on the hand-assembled pipeline above).
// Oracle: the flush content computed from the datagrams by the documented pipeline semantics.

import (
	"context"
	"errors"
	"fmt"
	"net"
	"sort"
	"strings"
	"time"

	"github.com/tilinna/clock"

	"github.com/atlassian/gostatsd"
	"github.com/atlassian/gostatsd/internal/verif/lib/fx"
	"github.com/atlassian/gostatsd/internal/verif/ref/lineref"
	"github.com/atlassian/gostatsd/internal/verif/ref/mapref"
	"github.com/atlassian/gostatsd/internal/verif/vrt"
	"github.com/atlassian/gostatsd/internal/verif/vsched"
	"github.com/atlassian/gostatsd/internal/verif/vtime"
)

type scase struct {
	Name      string
	Args      []string // command line (besides --backends=null)
	Cloud     bool     // a warm instance cache knows the sender
	Datagrams []string
	// what the command line means for the reference
	Namespace  string
	Static     []string
	IgnoreHost bool
}

const senderIP = "9.8.7.6"

var srvInstance = gostatsd.Instance{ID: "i-abc", Tags: gostatsd.Tags{"env:prod", "az:a"}}

type warmCache struct{}

func (warmCache) Peek(s gostatsd.Source) (*gostatsd.Instance, bool) {
	if s == senderIP {
		i := srvInstance
		i.Tags = srvInstance.Tags.Copy()
		return &i, true
	}
	return nil, true
}
func (warmCache) IpSink() chan<- gostatsd.Source            { return make(chan gostatsd.Source) }
func (warmCache) InfoSource() <-chan gostatsd.InstanceInfo { return make(chan gostatsd.InstanceInfo) }
func (warmCache) EstimatedTags() int                        { return 2 }

type srvBackend struct{ flushes [][]fx.Series }

func (b *srvBackend) Name() string                                           { return "rec" }
func (b *srvBackend) SendEvent(context.Context, *gostatsd.Event) error       { return nil }
func (b *srvBackend) SendMetricsAsync(_ context.Context, mm *gostatsd.MetricMap, cb gostatsd.SendCallback) {
	b.flushes = append(b.flushes, fx.Snapshot(mm))
	cb(nil)
}

type schedConn struct {
	ch     chan []byte
	closed chan struct{}
}

func (c *schedConn) ReadFrom(b []byte) (int, net.Addr, error) {
	switch vsched.Select(false, vsched.CaseRecv(c.ch), vsched.CaseRecv(c.closed)) {
	case 0:
		d := vsched.SelRecv(c.ch)
		return copy(b, d), &net.UDPAddr{IP: net.ParseIP(senderIP), Port: 9}, nil
	default:
		vsched.SelRecv2(c.closed)
		return 0, nil, errors.New("use of closed network connection")
	}
}
func (c *schedConn) WriteTo([]byte, net.Addr) (int, error) { return 0, nil }
func (c *schedConn) Close() error {
	select {
	case <-c.closed:
	default:
		vsched.Close(c.closed)
	}
	return nil
}
func (c *schedConn) LocalAddr() net.Addr              { return &net.UDPAddr{} }
func (c *schedConn) SetDeadline(time.Time) error      { return nil }
func (c *schedConn) SetReadDeadline(time.Time) error  { return nil }
func (c *schedConn) SetWriteDeadline(time.Time) error { return nil }

func serverCases() []scase {
	return []scase{
		{Name: "cloud-tag-also-sent-by-client", Args: []string{"--max-workers=3"}, Cloud: true,
			Datagrams: []string{"orders:1|c|#env:prod\norders:1|c", "orders:2|c|#az:a,env:prod\nlat:5|ms|#env:prod\nlat:7|ms"}},
		{Name: "static-tags-namespace", Args: []string{"--default-tags=env:prod team:x", "--namespace=ns", "--max-workers=2", "--max-parsers=2"}, Namespace: "ns", Static: []string{"env:prod", "team:x"},
			Datagrams: []string{"a:1|c\na:2|c|#team:x", "a:4|c|#env:prod,team:x\ng:3|g\nu:m1|s\nu:m2|s|#team:x"}},
		{Name: "static-and-cloud", Args: []string{"--default-tags=az:a svc:s", "--max-workers=2"}, Cloud: true, Static: []string{"az:a", "svc:s"},
			Datagrams: []string{"c:1|c|#svc:s\nc:1|c|#az:a\nc:1|c"}},
		{Name: "ignore-host", Args: []string{"--ignore-host=true", "--max-workers=2"}, IgnoreHost: true,
			Datagrams: []string{"a:1|c|#host:h1\na:1|c\na:1|c|#host:h1,x:y"}},
		{Name: "sampled", Args: []string{"--max-workers=1", "--max-queue-size=1"},
			Datagrams: []string{"c:3|c|@0.5\nt:1|ms|@0.25\nt:2|ms|#k:v|@0.5", "c:1|c\nt:3|ms"}},
	}
}

// reference: documented meaning of the lines, sender lookup, tag stage, aggregation
func serverWant(sc scase) mapref.Agg {
	want := mapref.Agg{}
	for _, dg := range sc.Datagrams {
		for _, line := range strings.Split(dg, "\n") {
			v, m := lineref.ParseMetric(line, sc.Namespace)
			if v != lineref.Accept {
				continue
			}
			tags := append([]string{}, m.Tags...)
			source := senderIP
			if sc.IgnoreHost {
				source = ""
				var rest []string
				for _, t := range tags {
					if strings.HasPrefix(t, "host:") && source == "" {
						source = strings.TrimPrefix(t, "host:")
						continue
					}
					rest = append(rest, t)
				}
				tags = rest
			}
			if sc.Cloud && source == senderIP {
				tags = append(tags, srvInstance.Tags...)
				source = string(srvInstance.ID)
			}
			tags = append(tags, sc.Static...)
			set := map[string]bool{}
			var uniq []string
			for _, t := range tags {
				if !set[t] {
					set[t] = true
					uniq = append(uniq, t)
				}
			}
			ty := map[string]string{"c": "c", "g": "g", "ms": "ms", "h": "ms", "s": "s"}[m.Type]
			want.Add(mapref.DP{Type: ty, Name: m.Name, Tags: uniq, Source: source, Value: m.Value, Str: m.Str, Rate: m.Rate, TS: 1})
		}
	}
	return want
}

func runServerCase(res *vrt.Result, sc scase) {
	res.Evaluations++
	be := &srvBackend{}
	var runErr error
	o := vsched.RunOnce(func() {
		ctx, mock := fx.NewClock(context.Background())
		clock.VerifDefault = vsched.EnvGet("clock").(clock.Clock)
		s := *verifServer(append([]string{"--flush-interval=1s", "--statser-type=null", "--heartbeat-enabled=false", "--max-readers=1", "--receive-batch-size=1", "--expiry-interval=5m"}, sc.Args...), nil)
		s.Backends = []gostatsd.Backend{be}
		if sc.Cloud {
			s.CachedInstances = warmCache{}
		}
		conn := &schedConn{ch: make(chan []byte), closed: make(chan struct{})}
		sctx, cancel := context.WithCancel(ctx)
		vsched.GoNamed("server", func() {
			runErr = s.RunWithCustomSocket(sctx, func() (net.PacketConn, error) { return conn, nil })
		})
		vsched.Quiesce("up")
		for _, dg := range sc.Datagrams {
			vsched.Send(conn.ch, []byte(dg))
			vsched.Quiesce("datagram-processed")
		}
		vtime.Advance(mock, time.Second)
		vsched.Quiesce("flushed")
		vsched.Cancel(cancel)
		vsched.Quiesce("down")
	})
	rp := map[string]any{"server": sc.Name}
	bad := func(kind, msg string) {
		res.Violate("server "+kind+" "+sc.Name, fmt.Sprintf("whole-server case %s (gostatsd %s; datagrams %q): %s", sc.Name, strings.Join(sc.Args, " "), sc.Datagrams, msg), rp)
	}
	if o.Kind != "ok" {
		bad("outcome-"+o.Kind, o.Detail+"\n"+o.Stack)
		return
	}
	if runErr != nil && !errors.Is(runErr, context.Canceled) {
		bad("run", runErr.Error())
		return
	}
	// one flush = one SendMetricsAsync per aggregator; a series may be reported by one of them only
	var all []fx.Series
	seen := map[string]bool{}
	for _, f := range be.flushes {
		for _, s := range f {
			t := append([]string{}, s.Tags...)
			sort.Strings(t)
			k := s.Type + "|" + s.Name + "|" + strings.Join(t, ",") + "|" + s.Source
			if seen[k] {
				bad("reported-twice", fmt.Sprintf("series %s is reported twice within one flush", k))
			}
			seen[k] = true
			all = append(all, s)
		}
	}
	got, err := mapref.FromSnapshot(all)
	if err != nil {
		bad("reported-twice", err.Error())
		return
	}
	if d := mapref.Diff(got, serverWant(sc), "any", false); d != "" {
		bad("flush-content", d)
	}
}
