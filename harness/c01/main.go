// C01: every datapoint lands in exactly one flush. Real DatagramParser -> BackendHandler (Split) ->
// worker.work -> MetricAggregator -> MetricFlusher.flushData, explored over all interleavings.
package main

import (
	"context"
	"fmt"
	"sort"
	"strconv"
	"strings"
	"time"

	"github.com/atlassian/gostatsd"
	"github.com/atlassian/gostatsd/internal/verif/lib/fx"
	"github.com/atlassian/gostatsd/internal/verif/vrt"
	"github.com/atlassian/gostatsd/internal/verif/vsched"
	"github.com/atlassian/gostatsd/internal/verif/vtime"
	"github.com/atlassian/gostatsd/pkg/statsd"
)

type config struct {
	P, W, Q  int
	Script   int
	Ticks    int
	AsyncCB  bool
}

func (c config) String() string {
	return fmt.Sprintf("P%d-W%d-Q%d-S%d-T%d-A%v", c.P, c.W, c.Q, c.Script, c.Ticks, c.AsyncCB)
}

// scripts: per driver, a list of datagram batches; a batch is a list of datagram payloads.
var scripts = [][][][]string{
	// 0: two drivers, one datagram each, colliding counter/timer/set
	{{{"c:1|c\nt:2|ms\ns:x|s"}}, {{"c:3|c|@0.5\nt:4|ms|@0.5\nt:8|ms|#z|@0.25\ns:y|s\nf:2.5|c|@0.5"}}},
	// 1: same plus a series on the other shard and a repeated member
	{{{"c:1|c\nother:5|c"}}, {{"c:3|c|@0.5\ns:x|s"}, {"s:x|s\nother:1|c"}}},
	// 2: one driver, two batches of two datagrams
	{{{"c:1|c", "t:1|ms"}, {"c:2|c|@0.25", "t:1|ms|@0.5\ns:a|s"}}},
	// 3: three drivers
	{{{"c:1|c"}}, {{"c:2|c"}}, {{"c:4|c\nt:7|ms"}}},
	// 4: tagged series of every type followed, in a later batch of the same parser, by lines carrying other
	//    tags (parsed metrics are pooled and reused: nothing kept from a batch may change afterwards)
	{{{"u:a|s|#r:eu\nc:1|c|#r:eu\nt:1|ms|#r:eu"}, {"c:1|c|#r:us,z:1\nu:b|s|#q:1"}}, {{"u:c|s|#r:eu"}}},
	// 5: a histogram-tagged timer over several flushes (its values, too, belong to exactly one flush)
	{{{"th:5|ms|#gsd_histogram:1_10\nth:50|ms|#gsd_histogram:1_10"}, {"th:7|ms|#gsd_histogram:1_10\nt:1|ms"}}},
	// 6: one driver, four single-line batches over names that spread over two aggregators
	{{{"c:1|c"}, {"t:2|ms"}, {"d:1|c"}, {"c:2|c"}}},
}

type expect struct {
	counters map[string]int64
	timers   map[string][]float64
	sampled  map[string]float64
	sets     map[string]map[string]bool
}

// reference reading of the documented line format for the well-formed lines used here
func expectOf(script [][][]string) expect {
	e := expect{map[string]int64{}, map[string][]float64{}, map[string]float64{}, map[string]map[string]bool{}}
	for _, drv := range script {
		for _, batch := range drv {
			for _, dg := range batch {
				for _, line := range strings.Split(dg, "\n") {
					nv := strings.SplitN(line, ":", 2)
					f := strings.Split(nv[1], "|")
					rate := 1.0
					var tags []string
					for _, x := range f[2:] {
						if strings.HasPrefix(x, "@") {
							rate, _ = strconv.ParseFloat(x[1:], 64)
						}
						if strings.HasPrefix(x, "#") {
							tags = strings.Split(x[1:], ",")
						}
					}
					nv[0] = seriesKey(nv[0], tags)
					switch f[1] {
					case "c":
						v, _ := strconv.ParseFloat(f[0], 64)
						e.counters[nv[0]] += int64(v / rate)
					case "ms":
						v, _ := strconv.ParseFloat(f[0], 64)
						e.timers[nv[0]] = append(e.timers[nv[0]], v)
						e.sampled[nv[0]] += 1 / rate
					case "s":
						if e.sets[nv[0]] == nil {
							e.sets[nv[0]] = map[string]bool{}
						}
						e.sets[nv[0]][f[0]] = true
					}
				}
			}
		}
	}
	return e
}

// seriesKey identifies a series in the oracle: name and tag set (every datagram has the same sender)
func seriesKey(name string, tags []string) string {
	t := append([]string{}, tags...)
	sort.Strings(t)
	return name + "{" + strings.Join(t, ",") + "}"
}

type call struct{ snap []fx.Series }

type backend struct {
	calls []call
	async bool
}

func (b *backend) Name() string { return "fake" }
func (b *backend) SendEvent(ctx context.Context, e *gostatsd.Event) error { return nil }
func (b *backend) SendMetricsAsync(ctx context.Context, mm *gostatsd.MetricMap, cb gostatsd.SendCallback) {
	b.calls = append(b.calls, call{fx.Snapshot(mm)})
	if b.async && vsched.Choose(2, "cb-async") == 1 {
		vsched.Go(func() { cb(nil) })
		return
	}
	cb(nil)
}

type run struct {
	cfg config
	be  *backend
}

func body(c config, r *run) func(x *vsched.Exec) {
	return func(x *vsched.Exec) {
		ctx, mock := fx.NewClock(context.Background())
		be := &backend{async: c.AsyncCB}
		r.be = be
		// the pipeline tail is wired by the server's own code (aggregator factory, backend handler, flusher)
		srv := &statsd.Server{Backends: []gostatsd.Backend{be}, MaxConcurrentEvents: 1, MaxWorkers: c.W, MaxQueueSize: c.Q, FlushInterval: time.Second,
			ExpiryIntervalCounter: 5 * time.Minute, ExpiryIntervalGauge: 5 * time.Minute, ExpiryIntervalSet: 5 * time.Minute, ExpiryIntervalTimer: 5 * time.Minute}
		bh, runnables, err := statsd.VerifStandaloneSink(srv)
		if err != nil {
			panic(err)
		}
		// the tag stage stands in front of the aggregation stage as in the server, with a filter that no line of the scripts
		// satisfies: it changes nothing, but every parser goroutine passes through the one stage (the -race pass sees what
		// the stage shares between them)
		var head gostatsd.PipelineHandler = statsd.NewTagHandler(bh, nil, []statsd.Filter{{MatchMetrics: gostatsd.StringMatchList{gostatsd.NewStringMatch("no.such.metric*")}, DropTags: gostatsd.StringMatchList{gostatsd.NewStringMatch("zz*")}}})
		in := make(chan []*statsd.Datagram)
		vsched.GoNamed("bh.Run", func() { runnables[0](ctx) })
		for i := 0; i < c.P; i++ {
			p := statsd.NewDatagramParser(in, "", false, 0, head, 0, false, fx.Quiet())
			vsched.GoNamed("parser", func() { p.Run(ctx) })
		}
		vsched.GoNamed("flusher", func() { runnables[2](ctx) }) // [1] is the handler's own statistics emitter
		for _, drv := range scripts[c.Script] {
			drv := drv
			vsched.GoNamed("driver", func() {
				for _, batch := range drv {
					var dgs []*statsd.Datagram
					for _, msg := range batch {
						dgs = append(dgs, &statsd.Datagram{IP: "1.2.3.4", Msg: []byte(msg), Timestamp: gostatsd.Nanotime(mock.Now().UnixNano()), DoneFunc: func() {}})
					}
					vsched.Send(in, dgs)
				}
			})
		}
		for i := 0; i < c.Ticks; i++ {
			vtime.Advance(mock, time.Second)
		}
		vsched.Quiesce("drain")
		mock.Add(time.Second)
		vsched.Quiesce("final")
	}
}

func check(c config, r *run, exp expect, outcomes map[string]struct{}) func(x *vsched.Exec, o vsched.Outcome) (string, string) {
	return func(x *vsched.Exec, o vsched.Outcome) (string, string) {
		if o.Kind != "ok" {
			return o.Kind, o.Kind + ": " + o.Detail
		}
		be := r.be
		gotC := map[string]int64{}
		gotT := map[string][]float64{}
		gotS := map[string]float64{}
		gotM := map[string]map[string]bool{}
		nonzero := map[string]int{}
		var sig strings.Builder
		for i := 0; i < len(be.calls); i += c.W {
			seen := map[string]bool{}
			for j := i; j < i+c.W && j < len(be.calls); j++ {
				for _, s := range be.calls[j].snap {
					if seen[s.Key()] {
						return "dup-in-flush", fmt.Sprintf("series %s reported twice within flush %d", s.Key(), i/c.W)
					}
					seen[s.Key()] = true
					s.Name = seriesKey(s.Name, s.Tags)
					switch s.Type {
					case "c":
						gotC[s.Name] += s.Count
						if s.Count != 0 {
							nonzero[s.Name]++
						}
					case "t":
						gotT[s.Name] = append(gotT[s.Name], s.Values...)
						gotS[s.Name] += s.Sampled
					case "s":
						if gotM[s.Name] == nil {
							gotM[s.Name] = map[string]bool{}
						}
						for _, m := range s.Members {
							gotM[s.Name][m] = true
						}
					}
				}
				sig.WriteString(fx.String(be.calls[j].snap, false))
				sig.WriteString("/")
			}
			sig.WriteString("#")
		}
		if len(be.calls)%c.W != 0 {
			return "partial-flush", fmt.Sprintf("%d backend calls with %d aggregators", len(be.calls), c.W)
		}
		for n := range gotC {
			if _, ok := exp.counters[n]; !ok {
				return "phantom", "counter never sent was reported: " + n
			}
		}
		for n := range gotT {
			if _, ok := exp.timers[n]; !ok {
				return "phantom", "timer never sent was reported: " + n
			}
		}
		for n := range gotM {
			if _, ok := exp.sets[n]; !ok {
				return "phantom", "set never sent was reported: " + n
			}
		}
		for n, v := range exp.counters {
			if gotC[n] != v {
				return "counter-total", fmt.Sprintf("counter %s: flushed total %d, sent %d; flushes: %s", n, gotC[n], v, sig.String())
			}
		}
		for n, v := range exp.timers {
			g := append([]float64{}, gotT[n]...)
			w := append([]float64{}, v...)
			sort.Float64s(g)
			sort.Float64s(w)
			if fmt.Sprint(g) != fmt.Sprint(w) {
				return "timer-values", fmt.Sprintf("timer %s: flushed values %v, sent %v; flushes: %s", n, g, w, sig.String())
			}
			if gotS[n] != exp.sampled[n] {
				return "timer-sampled", fmt.Sprintf("timer %s: sampled count %v, expected %v", n, gotS[n], exp.sampled[n])
			}
		}
		for n, v := range exp.sets {
			if len(gotM[n]) != len(v) {
				return "set-members", fmt.Sprintf("set %s: flushed %v, sent %v", n, gotM[n], v)
			}
			for m := range gotM[n] {
				if !v[m] {
					return "set-members", fmt.Sprintf("set %s: member %q never sent", n, m)
				}
			}
		}
		for _, k := range nonzero {
			if k > 1 {
				x.Note("series-split-over-flushes")
			}
		}
		if len(be.calls) > c.W {
			x.Note("more-than-one-flush")
		}
		if debugC01 && c.Script == 5 {
			fmt.Println("DBG", sig.String())
		}
		outcomes[c.String()+sig.String()] = struct{}{}
		return "", ""
	}
}

type replay struct {
	Cfg     config            `json:"cfg"`
	Choices []vsched.TransKey `json:"choices"`
}

func configs() []config {
	var cs []config
	if vrt.Thorough() {
		for _, s := range []int{0, 1, 2, 3, 4, 5, 6} {
			for _, p := range []int{1, 2} {
				for _, w := range []int{1, 2} {
					for _, q := range []int{0, 1} {
						cs = append(cs, config{P: p, W: w, Q: q, Script: s, Ticks: 2, AsyncCB: w == 1})
					}
				}
			}
		}
		return cs
	}
	return []config{
		{P: 1, W: 2, Q: 0, Script: 0, Ticks: 1},
		{P: 1, W: 1, Q: 1, Script: 0, Ticks: 2, AsyncCB: true},
		{P: 2, W: 2, Q: 0, Script: 1, Ticks: 1},
		{P: 1, W: 2, Q: 1, Script: 2, Ticks: 1},
		{P: 2, W: 1, Q: 0, Script: 3, Ticks: 1},
		{P: 1, W: 1, Q: 1, Script: 4, Ticks: 1},
		{P: 1, W: 1, Q: 0, Script: 5, Ticks: 2},
		// two aggregators and batches that concern only one of them (either one), with and without room in the queues
		{P: 1, W: 2, Q: 0, Script: 3, Ticks: 1},
		{P: 1, W: 2, Q: 1, Script: 6, Ticks: 1},
	}
}

func main() {
	res := vrt.Init()
	if *vrt.ReplayPath != "" {
		var rp replay
		var srv struct{ Server string }
		vrt.LoadReplay(&srv)
		if srv.Server != "" {
			for _, sc := range serverCases() {
				if sc.Name == srv.Server {
					runServerCase(res, sc)
				}
			}
			for _, v := range res.Violations {
				fmt.Println(v.Key, "\n ", v.Msg)
			}
			if len(res.Violations) > 0 {
				fmt.Printf("VIOLATION property=C01 replay=%s\n", *vrt.ReplayPath)
				os_exit(1)
			}
			return
		}
		vrt.LoadReplay(&rp)
		r := &run{}
		exp := expectOf(scripts[rp.Cfg.Script])
		o, key, msg, trace := vsched.Replay(vsched.Config{Body: body(rp.Cfg, r), Check: check(rp.Cfg, r, exp, map[string]struct{}{})}, rp.Choices)
		fmt.Println(strings.Join(trace, "\n"))
		fmt.Printf("outcome=%s key=%s\n%s\n", o.Kind, key, msg)
		if msg != "" {
			fmt.Printf("VIOLATION property=C01 replay=%s\n", *vrt.ReplayPath)
			os_exit(1)
		}
		return
	}
	outcomes := map[string]struct{}{}
	var cfgInfo []string
	for _, c := range configs() {
		if vrt.Expired() {
			res.Exhaustive = false
			break
		}
		r := &run{}
		exp := expectOf(scripts[c.Script])
		st := vsched.Explore(vsched.Config{Name: c.String(), Shard: *vrt.Shard, NShards: *vrt.NShards, SplitLvl: 4, Deadline: vrt.Deadline(),
			StatesOut: fmt.Sprintf("states_%s_%d.bin", c.String(), *vrt.Shard),
			Body: body(c, r), Check: check(c, r, exp, outcomes)})
		res.Evaluations += st.Executions
		res.Traces += st.Executions
		res.Transitions += st.Transitions
		res.States += st.States
		res.Counters["state_keys_seen_beyond_the_kept_set"] += st.StatesBeyondCap
		res.Counters["sleep_blocked"] += st.SleepBlocked
		res.Counters["horizon_hits"] += st.Horizon
		for k, v := range st.Notes {
			res.Counters["note."+k] += v
		}
		for k, v := range st.Outcomes {
			res.Counters["outcome."+k] += v
		}
		if !st.Exhaustive {
			res.Exhaustive = false
		}
		if st.MaxDepth > int(res.Counters["max_depth"]) {
			res.Counters["max_depth"] = int64(st.MaxDepth)
		}
		cfgInfo = append(cfgInfo, fmt.Sprintf("%s: execs=%d exhaustive=%v", c, st.Executions, st.Exhaustive))
		for _, v := range st.Violations {
			res.Violate(c.String()+":"+v.Key, v.Msg+"\ntrace:\n"+strings.Join(v.Trace, "\n"), replay{c, v.Choices})
		}
		for _, t := range st.SampleTraces {
			res.Sample(map[string]any{"config": c.String(), "schedule": t})
		}
	}
	if *vrt.Shard == 0 {
		for _, sc := range serverCases() {
			runServerCase(res, sc)
		}
	}
	res.SetDistinctKeys(outcomes)
	res.Info["configs"] = cfgInfo
	res.Finish()
}

func os_exit(c int) { osExit(c) }

var debugC01 = false
