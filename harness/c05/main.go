// C05: lines of a datagram are independent; parsed data never aliases the buffer.
package main

import (
	"bytes"
	"context"
	"fmt"
	"net"
	"os"
	"strings"
	"time"

	"github.com/atlassian/gostatsd"
	"github.com/atlassian/gostatsd/internal/verif/lib/fx"
	"github.com/atlassian/gostatsd/internal/verif/ref/lineref"
	"github.com/atlassian/gostatsd/internal/verif/ref/mapref"
	"github.com/atlassian/gostatsd/internal/verif/vrt"
	"github.com/atlassian/gostatsd/pkg/statsd"
)

var res *vrt.Result
var nontrivial int64

const ip = "9.8.7.6"
const ts = 12345

type rigT struct {
	in         chan []*statsd.Datagram
	rec        *fx.Recorder
	dp         *statsd.DatagramParser
	ignoreHost bool
	ns         string
	buf        []byte // the reused datagram buffer
}

func newRig(ignoreHost bool, ns string) *rigT {
	r := &rigT{in: make(chan []*statsd.Datagram), rec: &fx.Recorder{}, ignoreHost: ignoreHost, ns: ns, buf: make([]byte, 65536)}
	r.dp = statsd.NewDatagramParser(r.in, ns, ignoreHost, 0, r.rec, 0, false, fx.Quiet())
	go r.dp.Run(context.Background())
	return r
}

type evt struct {
	Title, Text, Source, Key, SrcType string
	Date                              int64
	Pri, Alert                        string
	Tags                              []string
}

type out struct {
	snap   []fx.Series
	events []evt
	bad    uint64
	mm     *gostatsd.MetricMap
	evp    []*gostatsd.Event
}

func snapEvents(es []*gostatsd.Event) []evt {
	var o []evt
	for _, e := range es {
		pri := "normal"
		if e.Priority == gostatsd.PriLow {
			pri = "low"
		}
		o = append(o, evt{e.Title, e.Text, string(e.Source), e.AggregationKey, e.SourceTypeName, e.DateHappened, pri, e.AlertType.String(), append([]string{}, e.Tags...)})
	}
	return o
}

// parse runs datagram d (copied into the rig's reused buffer) through the real parser.
func (r *rigT) parse(d []byte) out {
	n := copy(r.buf, d)
	msg := r.buf[:n]
	_, _, b0 := r.dp.VerifCounters()
	r.rec.Maps, r.rec.Events = nil, nil
	// DoneFunc tells the receiver that the buffer is free: it is overwritten at once, as the next datagram read into it would
	r.in <- []*statsd.Datagram{{IP: ip, Msg: msg, Timestamp: ts, DoneFunc: func() {
		for i := range msg {
			msg[i] = 0xFE
		}
	}}}
	r.in <- nil
	_, _, b1 := r.dp.VerifCounters()
	o := out{bad: b1 - b0}
	if len(r.rec.Maps) > 1 {
		panic("more than one map per batch")
	}
	if len(r.rec.Maps) == 1 {
		o.mm = r.rec.Maps[0]
		o.snap = fx.Snapshot(o.mm)
	}
	o.evp = r.rec.Events
	o.events = snapEvents(o.evp)
	return o
}

func splitLines(d []byte) []string {
	if len(d) == 0 {
		return nil
	}
	ls := strings.Split(string(d), "\n")
	if ls[len(ls)-1] == "" {
		ls = ls[:len(ls)-1]
	}
	return ls
}

func typ(t string) string { return t }

func checkDatagram(r *rigT, d []byte) {
	res.Evaluations++
	rp := map[string]any{"bytes": d, "ignoreHost": r.ignoreHost, "ns": r.ns}
	bad := func(kind, msg string) {
		res.Violate(kind+" "+shape(d), fmt.Sprintf("%s: datagram %q ignoreHost=%v ns=%q: %s", kind, d, r.ignoreHost, r.ns, msg), rp)
	}
	t0 := time.Now().Unix()
	whole := r.parse(d)
	t1 := time.Now().Unix()
	before := fx.String(whole.snap, true)
	beforeEv := fmt.Sprint(whole.events)
	// aliasing: overwrite the buffer, parse something else with the same buffer and pool, look again
	for i := range r.buf[:len(d)+8] {
		r.buf[i] = 0xFF
	}
	r.parse([]byte("zz.zz:9|c|#qq:1,host:hh\nzz.zz:8|g|#rr\nzz.yy:7|ms|@0.5\n_e{2,2}:QQ|RR|#ee"))
	if whole.mm != nil {
		if after := fx.String(fx.Snapshot(whole.mm), true); after != before {
			bad("aliasing", fmt.Sprintf("metrics changed after the buffer was overwritten and reused:\n before %s\n after  %s", before, after))
		}
	}
	if afterEv := fmt.Sprint(snapEvents(whole.evp)); afterEv != beforeEv {
		bad("aliasing-event", fmt.Sprintf("events changed after the buffer was overwritten: before %s after %s", beforeEv, afterEv))
	}
	// expected = fold of the per-line results
	want := mapref.Agg{}
	var wantEv []evt
	var wantBad uint64
	for _, line := range splitLines(d) {
		v, m := lineref.ParseMetric(line, r.ns)
		var ve lineref.Verdict = lineref.Unspecified
		var e *lineref.Event
		if strings.HasPrefix(line, "_e{") {
			ve, e = lineref.ParseEvent(line)
			v = lineref.Unspecified
		}
		switch {
		case strings.HasPrefix(line, "_e{") && ve == lineref.Accept:
			wantEv = append(wantEv, evt{e.Title, e.Text, ip, e.Key, e.SourceType, e.Date, e.Priority, e.Alert, e.Tags})
		case strings.HasPrefix(line, "_e{") && ve == lineref.Reject, !strings.HasPrefix(line, "_e{") && v == lineref.Reject:
			wantBad++
		case v == lineref.Accept:
			dp := mapref.DP{Type: m.Type, Name: m.Name, Tags: m.Tags, Source: ip, Value: m.Value, Str: m.Str, Rate: m.Rate, TS: ts}
			if r.ignoreHost {
				dp.Source = ""
				for i, t := range m.Tags {
					if strings.HasPrefix(t, "host:") {
						dp.Source = t[5:]
						dp.Tags = append(append([]string{}, m.Tags[:i]...), m.Tags[i+1:]...)
						break
					}
				}
			}
			want.Add(dp)
		default: // not documented: take the implementation's result for the line alone
			alone := r.parse([]byte(line))
			wantBad += alone.bad
			a, err := mapref.FromSnapshot(alone.snap)
			if err != nil {
				bad("dup-series", err.Error())
			}
			for _, s := range a {
				want.AddSeries(s)
			}
			wantEv = append(wantEv, alone.events...)
		}
	}
	// a datagram of one accepted metric line: the parser hands on the line's tags in the order given (without the
	// first host: tag when ignore-host took it as the source) - read before the map merge, which sorts them
	if ls := splitLines(d); len(ls) == 1 {
		if v, m := lineref.ParseMetric(ls[0], r.ns); v == lineref.Accept {
			wantTags := append([]string{}, m.Tags...)
			if r.ignoreHost {
				for i, t := range wantTags {
					if strings.HasPrefix(t, "host:") {
						wantTags = append(wantTags[:i], wantTags[i+1:]...)
						break
					}
				}
			}
			gotTags, _ := r.dp.VerifLineTags(ip, append([]byte{}, d...))
			if len(gotTags) != 1 || fmt.Sprint(gotTags[0]) != fmt.Sprint(wantTags) {
				bad("tag-order", fmt.Sprintf("the parser's metric carries tags %v, want %v (in this order)", gotTags, wantTags))
			}
		}
	}
	got, err := mapref.FromSnapshot(whole.snap)
	if err != nil {
		bad("dup-series", err.Error())
		return
	}
	if diff := mapref.Diff(got, want, "last", true); diff != "" {
		k := "metrics"
		if strings.HasPrefix(diff, "gauge") {
			k = "gauge-last-wins"
		}
		bad(k, diff)
	}
	if whole.bad != wantBad {
		bad("bad-lines", fmt.Sprintf("bad line count %d, want %d", whole.bad, wantBad))
	}
	if len(whole.events) != len(wantEv) {
		bad("events", fmt.Sprintf("events %v, want %v", whole.events, wantEv))
	} else {
		for i := range wantEv {
			g, w := whole.events[i], wantEv[i]
			if w.Date == 0 {
				if g.Date < t0 || g.Date > t1 {
					bad("event-date", fmt.Sprintf("event without d: got date %d, receipt time in [%d,%d]", g.Date, t0, t1))
				}
				g.Date = 0
			}
			if fmt.Sprint(g) != fmt.Sprint(w) {
				bad("events", fmt.Sprintf("event %d: %v, want %v", i, g, w))
			}
		}
	}
	if len(whole.snap)+len(whole.events) > 0 {
		nontrivial++
	}
}

func shape(d []byte) string {
	var b strings.Builder
	for i := 0; i < len(d) && i < 48; i++ {
		c := d[i]
		switch {
		case c >= '0' && c <= '9':
			b.WriteByte('9')
		case c == '\n':
			b.WriteString("\\n")
		default:
			b.WriteByte(c)
		}
	}
	return b.String()
}

var menu = []string{
	"a:1|c", "a:2|c|@0.5", "g:1|g", "g:2|g", "g:3|g|#x", "t:5|ms", "t:7|h|@0.25", "s:m1|s", "s:m2|s",
	"a b/c$d:1|c", "bad line", "", "_e{2,3}:ti|txt|#et", "a:4|c|#host:hh,x", "a:1|c|#x,host:h2,host:h3", "g:9|g|#host:hh", "a:5|c|#host:fe80::1,x", "t:2|ms|#w,host:h4,x,y,z",
	// lines rejected only after their tags were read, and an event without tags of its own
	"a:zz|c|#t1,t2", "a:1|c|#t3|@0", "_e{1,1}:x|y", "_e{1,1}:x|y|#t4|p:bogus",
	// the same names under another tag set, sampled (first datapoint of a new series of an existing name)
	"t:3|ms|#x|@0.5", "a:6|c|#y|@0.25", "s:m3|s|#x",
}

func structured() {
	k := 3
	if vrt.Thorough() {
		k = 4
	}
	res.Info["max_lines"] = k
	rigs := []*rigT{newRig(false, ""), newRig(true, ""), newRig(false, "ns"), newRig(true, "ns")}
	var i int64
	var rec func(cur []string)
	rec = func(cur []string) {
		if len(cur) > 0 {
			i++
			if vrt.Mine(i) {
				for _, r := range rigs {
					j := strings.Join(cur, "\n")
					checkDatagram(r, []byte(j))
					checkDatagram(r, []byte(j+"\n"))
				}
			}
		}
		if len(cur) == k {
			return
		}
		for _, m := range menu {
			rec(append(cur, m))
		}
	}
	rec(nil)
	res.Sample(map[string]any{"family": "structured", "datagram": "g:1|g\ng:2|g\na:4|c|#host:hh,x\n", "ignoreHost": true})
}

func sigma() {
	L := 5
	if vrt.Thorough() {
		L = 6
	}
	res.Info["sigma_max_len"] = L
	alpha := []byte("a:|1.cgs@#,_ \n-")
	r := newRig(false, "")
	buf := make([]byte, 0, L)
	var rec func()
	rec = func() {
		if vrt.Stop() {
			return
		}
		checkDatagram(r, buf)
		if len(buf) == L {
			return
		}
		for _, c := range alpha {
			buf = append(buf, c)
			rec()
			buf = buf[:len(buf)-1]
		}
	}
	var i int64
	for _, c1 := range alpha {
		for _, c2 := range alpha {
			i++
			if !vrt.Mine(i) {
				continue
			}
			buf = append(buf[:0], c1, c2)
			rec()
		}
	}
	res.Sample(map[string]any{"family": "sigma", "datagram": "a:1|c\na"})
}

// ---- "every metric carries the datagram's receive time", through the real DatagramReceiver: the receiver is
// already waiting in ReadFrom when the harness reads the clock and only then lets a datagram arrive, so the
// receive time cannot be earlier than that reading (and not later than the reading taken once the batch is out).

type gatedConn struct {
	entered chan struct{}
	data    chan []byte
}

func (c *gatedConn) ReadFrom(b []byte) (int, net.Addr, error) {
	c.entered <- struct{}{}
	d := <-c.data
	return copy(b, d), &net.UDPAddr{IP: net.IPv4(9, 8, 7, 6), Port: 1}, nil
}
func (c *gatedConn) WriteTo([]byte, net.Addr) (int, error) { return 0, nil }
func (c *gatedConn) Close() error                           { return nil }
func (c *gatedConn) LocalAddr() net.Addr                    { return &net.UDPAddr{} }
func (c *gatedConn) SetDeadline(time.Time) error            { return nil }
func (c *gatedConn) SetReadDeadline(time.Time) error        { return nil }
func (c *gatedConn) SetWriteDeadline(time.Time) error       { return nil }

func receiveTime() {
	out := make(chan []*statsd.Datagram)
	conn := &gatedConn{entered: make(chan struct{}), data: make(chan []byte)}
	dr := statsd.NewDatagramReceiver(out, nil, 1, 1)
	go dr.Receive(context.Background(), conn)
	for k, idle := range []time.Duration{0, 3 * time.Millisecond, 0, 20 * time.Millisecond} {
		res.Evaluations++
		<-conn.entered // the receiver is inside ReadFrom, waiting for a datagram
		time.Sleep(idle + time.Millisecond)
		before := gostatsd.NanoNow()
		conn.data <- []byte(fmt.Sprintf("rt%d:1|c", k))
		batch := <-out
		after := gostatsd.NanoNow()
		for _, dg := range batch {
			if dg.Timestamp < before || dg.Timestamp > after {
				res.Violate("receive-time", fmt.Sprintf("datagram %d arrived between clock readings %d and %d (the receiver had been waiting %v) but is stamped %d (%v before its arrival)", k, before, after, idle, dg.Timestamp, time.Duration(before-dg.Timestamp)), map[string]any{"receiveTime": true})
			}
			dg.DoneFunc()
		}
	}
	// a datagram that was handed over but is not yet parsed keeps its bytes while later datagrams are read:
	// releasing an earlier, parsed datagram must recycle that datagram's buffer and no other
	res.Evaluations++
	next := func(d string) []*statsd.Datagram {
		<-conn.entered
		conn.data <- []byte(d)
		return <-out
	}
	for _, dg := range next("k0:1|c") {
		dg.DoneFunc() // parsed and released
	}
	held := next("k1:11111|c|#still:unparsed")
	want := append([]byte{}, held[0].Msg...)
	later := next("k2:2|g")
	later2 := next("k3:33|ms|#x")
	if !bytes.Equal(held[0].Msg, want) {
		res.Violate("receiver-buffer-reused", fmt.Sprintf("a datagram handed over by the receiver (%q) and not yet parsed now reads %q: its buffer was recycled when an earlier datagram was released, and a later datagram was read into it", want, held[0].Msg), map[string]any{"receiveTime": true})
	}
	for _, b := range [][]*statsd.Datagram{held, later, later2} {
		for _, dg := range b {
			dg.DoneFunc()
		}
	}
}

func main() {
	res = vrt.Init()
	if *vrt.ReplayPath != "" {
		var rp struct {
			Bytes      []byte
			IgnoreHost bool
			Ns         string
		}
		var rt struct{ ReceiveTime bool }
		vrt.LoadReplay(&rp)
		vrt.LoadReplay(&rt)
		if rt.ReceiveTime {
			receiveTime()
		} else {
			checkDatagram(newRig(rp.IgnoreHost, rp.Ns), rp.Bytes)
		}
		for _, v := range res.Violations {
			fmt.Println(v.Key, "\n ", v.Msg)
		}
		if len(res.Violations) > 0 {
			fmt.Printf("VIOLATION property=C05 replay=%s\n", *vrt.ReplayPath)
			os.Exit(1)
		}
		fmt.Println("no violation")
		return
	}
	switch *vrt.Sub {
	case "sigma":
		sigma()
	case "structured":
		structured()
		if *vrt.Shard == 0 {
			receiveTime()
		}
	}
	res.DistinctNontrivial = nontrivial
	res.States = res.Evaluations
	res.Transitions = res.Evaluations
	res.Traces = res.Evaluations
	res.Finish()
}

var _ = bytes.Equal
