package main

import (
	"context"
	"fmt"
	"strconv"
	"strings"
	"time"

	"github.com/tilinna/clock"

	"github.com/atlassian/gostatsd"
	"github.com/atlassian/gostatsd/internal/verif/lib/bk"
	"github.com/atlassian/gostatsd/internal/verif/lib/fx"
	"github.com/atlassian/gostatsd/internal/verif/vsched"
)

// ---- a healthy but slow peer of the statsd relay. Every write (udp: one datagram-sized buffer) takes `Delay` of the
// mock clock, always less than the relay's write timeout (30 s); a flush of several buffers takes longer than that as a
// whole, and so do two flushes on the one connection. A write ends with a timeout error only if the connection's write
// deadline passes first. No transport failure is scripted, so every series of every flush must be written exactly once,
// in accepted writes, and every completion comes without an error.

type slowCase struct {
	Series  int // counters per flush (about 30 per datagram)
	Flushes int
	Delay   int // seconds per write
}

func slowCases() []slowCase {
	var cs []slowCase
	for _, n := range []int{20, 100, 200} {
		for _, f := range []int{1, 2, 3} {
			for _, d := range []int{0, 8, 12, 29} {
				cs = append(cs, slowCase{n, f, d})
			}
		}
	}
	return cs
}

func slowName(f, i int) string {
	return fmt.Sprintf("slow.flush%d.counter.%03d.padpadpadpadpadpadpad", f, i)
}

func checkSlowRelay(sc slowCase) {
	res.Evaluations++
	var b *bk.Built
	var cerr string
	cbs := 0
	var cbErrs []string
	o := vsched.RunOnce(func() {
		ctx, mock := fx.NewClock(context.Background())
		var err error
		b, err = bk.New("statsdaemon-udp", bk.Opts{})
		if err != nil {
			cerr = err.Error()
			return
		}
		b.Env.Net.Delay = func(int) time.Duration { return time.Duration(sc.Delay) * time.Second }
		b.Env.Net.Now = mock.Now
		b.Env.Net.Wait = func(until time.Time) {
			if d := until.Sub(mock.Now()); d > 0 {
				vsched.Recv(vsched.EnvGet("clock").(clock.Clock).NewTimer(d).C)
			}
		}
		if b.Run != nil {
			vsched.GoNamed("backend.Run", func() { b.Run(ctx) })
		}
		done := make(chan struct{}, sc.Flushes)
		// the flusher: one flush after the other, the next one when the previous one has been answered
		vsched.GoNamed("flusher", func() {
			for f := 0; f < sc.Flushes; f++ {
				mm := gostatsd.NewMetricMap(false)
				for i := 0; i < sc.Series; i++ {
					mm.Counters[slowName(f, i)] = map[string]gostatsd.Counter{"": {Value: int64(i + 1), PerSecond: 1}}
				}
				b.Backend.SendMetricsAsync(ctx, mm, func(errs []error) {
					if vsched.Aborting() {
						return
					}
					cbs++
					for _, e := range errs {
						if e != nil {
							cbErrs = append(cbErrs, e.Error())
						}
					}
					vsched.Send(done, struct{}{})
				})
				vsched.Recv(done)
			}
		})
		vsched.Quiesce("started")
		for step := 0; step < 400 && cbs < sc.Flushes && mock.Len() > 0; step++ {
			vsched.ClockOp(true, "advance-next")
			mock.AddNext()
			vsched.Quiesce("stepped")
		}
	})
	rp := map[string]any{"slow": sc}
	name := fmt.Sprintf("slow-relay series=%d flushes=%d delay=%ds", sc.Series, sc.Flushes, sc.Delay)
	if cerr != "" {
		res.Violate("run statsdaemon-udp", cerr, rp)
		return
	}
	if o.Kind != "ok" {
		res.Violate("run statsdaemon-udp", name+": "+o.Kind+": "+o.Detail, rp)
		return
	}
	seen := map[string]int{}
	refused := 0
	for i, w := range b.Env.Net.Writes {
		if !b.Env.Net.WriteOK[i] {
			refused++
			continue
		}
		for _, line := range strings.Split(strings.TrimSuffix(string(w), "\n"), "\n") {
			seen[line]++
		}
	}
	var problems []string
	if cbs != sc.Flushes {
		problems = append(problems, fmt.Sprintf("%d completions for %d flushes", cbs, sc.Flushes))
	}
	if len(cbErrs) > 0 {
		problems = append(problems, fmt.Sprintf("no transport failure, yet a completion carries %q", cbErrs))
	}
	if refused > 0 {
		problems = append(problems, fmt.Sprintf("%d of %d writes ended with a timeout although each takes %ds of a 30s write timeout", refused, len(b.Env.Net.Writes), sc.Delay))
	}
	missing, twice := 0, 0
	for f := 0; f < sc.Flushes; f++ {
		for i := 0; i < sc.Series; i++ {
			switch n := seen[slowName(f, i)+":"+strconv.Itoa(i+1)+"|c"]; {
			case n == 0:
				missing++
			case n > 1:
				twice++
			}
		}
	}
	if missing > 0 || twice > 0 {
		problems = append(problems, fmt.Sprintf("%d series not written, %d written more than once", missing, twice))
	}
	if len(problems) > 0 {
		res.Violate("slow-relay", name+": "+strings.Join(problems, "; "), rp)
	}
	if sc.Delay > 0 && len(b.Env.Net.Writes) >= 3 {
		nontrivial[name] = struct{}{}
	}
}
