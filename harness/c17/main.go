// C17: backend payloads contain every series exactly once and are well formed.
package main

import (
	"context"
	"encoding/json"
	"fmt"
	"math"
	"os"
	"sort"
	"strconv"
	"strings"
	"time"

	collmetrics "go.opentelemetry.io/proto/otlp/collector/metrics/v1"
	commonpb "go.opentelemetry.io/proto/otlp/common/v1"
	metricspb "go.opentelemetry.io/proto/otlp/metrics/v1"
	"google.golang.org/protobuf/proto"

	"github.com/atlassian/gostatsd"
	"github.com/atlassian/gostatsd/internal/lexer"
	"github.com/atlassian/gostatsd/internal/pool"
	"github.com/atlassian/gostatsd/internal/verif/lib/bk"
	"github.com/atlassian/gostatsd/internal/verif/lib/fx"
	"github.com/atlassian/gostatsd/internal/verif/ref/mapref"
	"github.com/atlassian/gostatsd/internal/verif/vrt"
	"github.com/atlassian/gostatsd/internal/verif/vsched"
	"github.com/atlassian/gostatsd/pkg/backends/stdout"
	"github.com/atlassian/gostatsd/pkg/statsd"
)

var res *vrt.Result
var nontrivial = map[string]struct{}{}

// ---------------------------------------------------------------------------------------------
// input series

type ser struct {
	Type   string // c g s ms
	Name   string
	Tags   []string
	Source string
	Vals   []float64 // datapoints (set: members are their string forms)
}

var manyTags = []string{"t01:a", "t02:b", "t03:c", "t04:d", "t05:e", "t06:f", "t07:g", "t08:h", "t09:i", "t10:j", "t11:k", "t12:l"}

var menu = []ser{
	{"c", "a", nil, "", []float64{3}},
	{"c", "A.b-c_d", []string{"t"}, "h", []float64{1, 4}},
	{"c", "n9", []string{"k:v", "host:x"}, "h", []float64{7}},
	{"c", "a", []string{"k:v", "k:w", "bare"}, "", []float64{2}},
	{"g", "a", nil, "h", []float64{1.5}},
	{"g", "g.g", []string{"k:v"}, "", []float64{-2.25}},
	{"s", "s", []string{"t"}, "h", []float64{1, 2, 2}},
	{"s", "a", nil, "", []float64{5}},
	{"ms", "t", nil, "", []float64{1, 2, 4}},
	{"ms", "t.x", []string{"k:v"}, "h", []float64{3}},
	{"ms", "a", []string{"t", "k:v"}, "h", []float64{0.5, 8}},
	{"ms", "th", []string{"gsd_histogram:1_5"}, "h", []float64{0.5, 3, 7}},
	{"ms", "th", []string{"gsd_histogram:2", "k:v"}, "", []float64{2, 9}},
	{"ms", "th3", []string{"gsd_histogram:1_5", "k:v"}, "h", []float64{7, 0.5, 3}}, // values of a histogram-tagged timer stay in arrival order
	{"ms", "th5", []string{"gsd_histogram:1_5", "k:v", "t", "u:w"}, "h", []float64{0.5, 7}},
	{"c", "many", manyTags, "", []float64{6}},
	{"g", "a", []string{"a/b:c d"}, "", []float64{10}},
	{"c", "Z", []string{"unnamed:u", "x", "peer:10.0.0.1:8080"}, "src2", []float64{9}},
	{"g", "hl", []string{"hostgroup:web", "host.zone:b"}, "h9", []float64{2}},                     // tags that merely start with "host": the source is still the host
	{"g", "inf", []string{"k:v"}, "h", []float64{math.Inf(1)}},                                    // an infinite gauge (the lexer accepts inf)
	{"g", "ev", []string{"e:", "k:v"}, "h", []float64{4}},                                         // a tag with an empty value
	{"ms", "th9", append([]string{"gsd_histogram:1_5"}, manyTags[:9]...), "h", []float64{3, 0.5}}, // histogram buckets on a series that already has ten tags
}

type mapSpec struct {
	Series []int
	Pct    bool
	Mask   int
	Limit0 bool `json:",omitempty"` // timer-histogram-limit=0: histogram-tagged timers report nothing at all
}

var subKeys = []string{"lower", "lower-pct", "upper", "upper-pct", "count", "count-pct", "count-per-second", "mean", "mean-pct", "median", "stddev", "sum", "sum-pct", "sum-squares", "sum-squares-pct"}

func disabled(mask int) (map[string]bool, gostatsd.TimerSubtypes) {
	d := map[string]bool{}
	switch {
	case mask == 1:
		for _, k := range subKeys {
			d[k] = true
		}
	case mask >= 2 && mask < 2+len(subKeys):
		d[subKeys[mask-2]] = true
	case mask == 2+len(subKeys): // every non-percentile sub-metric ("percentiles only")
		for _, k := range subKeys {
			if !strings.HasSuffix(k, "-pct") {
				d[k] = true
			}
		}
	case mask == 3+len(subKeys): // every percentile sub-metric
		for _, k := range subKeys {
			if strings.HasSuffix(k, "-pct") {
				d[k] = true
			}
		}
	}
	return d, gostatsd.TimerSubtypes{Lower: d["lower"], LowerPct: d["lower-pct"], Upper: d["upper"], UpperPct: d["upper-pct"], Count: d["count"], CountPct: d["count-pct"],
		CountPerSecond: d["count-per-second"], Mean: d["mean"], MeanPct: d["mean-pct"], Median: d["median"], StdDev: d["stddev"], Sum: d["sum"], SumPct: d["sum-pct"], SumSquares: d["sum-squares"], SumSquaresPct: d["sum-squares-pct"]}
}

// flushed builds the aggregate the real aggregator hands to backends for the given series.
func flushed(ms mapSpec) *gostatsd.MetricMap {
	dkeys, _ := disabled(ms.Mask)
	var pcts []float64
	if ms.Pct {
		pcts = []float64{90, -50}
	}
	ag := statsd.VerifWiredAggregator(*verifServer([]string{verifPctArg(pcts), "--expiry-interval=0s", fmt.Sprintf("--timer-histogram-limit=%d", map[bool]uint32{false: math.MaxUint32, true: 0}[ms.Limit0])}, dkeys))
	mm := gostatsd.NewMetricMap(false)
	for _, i := range ms.Series {
		s := menu[i]
		ty := map[string]gostatsd.MetricType{"c": gostatsd.COUNTER, "g": gostatsd.GAUGE, "s": gostatsd.SET, "ms": gostatsd.TIMER}[s.Type]
		for _, v := range s.Vals {
			mm.Receive(&gostatsd.Metric{Name: s.Name, Type: ty, Value: v, StringValue: fmt.Sprint("m", v), Rate: 1, Tags: append(gostatsd.Tags{}, s.Tags...), Source: gostatsd.Source(s.Source), Timestamp: 5})
		}
	}
	// the tag stage in front of the aggregators hands series on whose tag slices have spare capacity (it appends the
	// static tags); the aggregator keeps such a slice as it is: a backend must not append to it
	roomy := func(t gostatsd.Tags) gostatsd.Tags {
		if t == nil {
			return nil
		}
		return append(make(gostatsd.Tags, 0, len(t)+4), t...)
	}
	for n, byKey := range mm.Counters {
		for k, v := range byKey {
			v.Tags = roomy(v.Tags)
			mm.Counters[n][k] = v
		}
	}
	for n, byKey := range mm.Gauges {
		for k, v := range byKey {
			v.Tags = roomy(v.Tags)
			mm.Gauges[n][k] = v
		}
	}
	for n, byKey := range mm.Sets {
		for k, v := range byKey {
			v.Tags = roomy(v.Tags)
			mm.Sets[n][k] = v
		}
	}
	for n, byKey := range mm.Timers {
		for k, v := range byKey {
			v.Tags = roomy(v.Tags)
			mm.Timers[n][k] = v
		}
	}
	ag.ReceiveMap(mm)
	ag.Flush(time.Second)
	var out *gostatsd.MetricMap
	ag.Process(func(m *gostatsd.MetricMap) { out = m })
	return out
}

// ---------------------------------------------------------------------------------------------
// payload entries

type entry struct {
	Name string
	Tags []string // rendered as the backend renders them, sorted
	Host string
	Vals []float64
	Hist *histDP `json:",omitempty"` // OTLP histogram data point, field by field
}

type histDP struct {
	Count          uint64
	Sum, Min, Max  float64
	HasMin, HasMax bool
	Buckets        []uint64
	Bounds         []float64
}

func (e entry) key() string {
	var v []string
	for _, x := range e.Vals {
		v = append(v, strconv.FormatFloat(x, 'f', 6, 64))
	}
	return e.Name + "|" + strings.Join(e.Tags, ",") + "|" + e.Host + "|" + strings.Join(v, ",")
}

type capture struct {
	entries  []entry
	payloads int
	problems []string
	mutated  string // the backend changed the aggregate it was handed
}

func (c *capture) bad(format string, a ...any) {
	c.problems = append(c.problems, fmt.Sprintf(format, a...))
}

func sortedCopy(s []string) []string {
	o := append([]string{}, s...)
	sort.Strings(o)
	return o
}

func num(v any) (float64, bool) {
	switch x := v.(type) {
	case float64:
		return x, true
	case json.Number:
		f, err := x.Float64()
		return f, err == nil
	}
	return 0, false
}

func decodeDatadog(c *capture, body []byte, batch int) {
	var p struct {
		Series []struct {
			Host   string       `json:"host"`
			Metric string       `json:"metric"`
			Points [][2]float64 `json:"points"`
			Tags   []string     `json:"tags"`
			Type   string       `json:"type"`
		} `json:"series"`
	}
	if err := json.Unmarshal(body, &p); err != nil {
		c.bad("datadog payload is not valid JSON: %v", err)
		return
	}
	for _, s := range p.Series {
		if len(s.Points) != 1 {
			c.bad("datadog series %s has %d points", s.Metric, len(s.Points))
			continue
		}
		c.entries = append(c.entries, entry{Name: s.Metric, Tags: sortedCopy(s.Tags), Host: s.Host, Vals: []float64{s.Points[0][1]}})
	}
}

// generic JSON metric objects (New Relic): every numeric field except time/interval is a value
func decodeNewRelic(c *capture, body []byte, kind string) {
	var top any
	if err := json.Unmarshal(body, &top); err != nil {
		c.bad("newrelic payload is not valid JSON: %v", err)
		return
	}
	var metrics []any
	switch kind {
	case "newrelic-infra":
		arr, _ := top.(map[string]any)
		data, _ := arr["data"].([]any)
		for _, d := range data {
			dm, _ := d.(map[string]any)
			ms, _ := dm["metrics"].([]any)
			metrics = append(metrics, ms...)
		}
		if arr == nil {
			c.bad("newrelic infra payload is not an object")
		}
	case "newrelic-insights":
		metrics, _ = top.([]any)
	case "newrelic-metrics":
		arr, _ := top.([]any)
		for _, d := range arr {
			dm, _ := d.(map[string]any)
			ms, _ := dm["metrics"].([]any)
			metrics = append(metrics, ms...)
		}
	}
	for _, m := range metrics {
		mm, ok := m.(map[string]any)
		if !ok {
			c.bad("newrelic metric is not an object")
			continue
		}
		e := entry{}
		var flat []string
		var walk func(prefix string, x map[string]any)
		walk = func(prefix string, x map[string]any) {
			for k, v := range x {
				if k == "timestamp" || k == "interval" || k == "interval.ms" || k == "integration_version" {
					continue
				}
				switch t := v.(type) {
				case map[string]any:
					walk(prefix+k+".", t)
				case string:
					if k == "name" || k == "metric_name" {
						e.Name = t
					}
					flat = append(flat, prefix+k+"="+t)
				default:
					if f, ok := num(v); ok {
						flat = append(flat, prefix+k+"=#")
						e.Vals = append(e.Vals, f)
					}
				}
			}
		}
		walk("", mm)
		sort.Strings(flat)
		sort.Float64s(e.Vals)
		e.Tags = flat
		c.entries = append(c.entries, e)
	}
}

// influx line protocol: measurement[,tag=val...] field=val[,field=val...] timestamp
func splitUnescaped(s string, sep byte) []string {
	var out []string
	var cur strings.Builder
	for i := 0; i < len(s); i++ {
		if s[i] == '\\' && i+1 < len(s) {
			cur.WriteByte(s[i])
			cur.WriteByte(s[i+1])
			i++
			continue
		}
		if s[i] == sep {
			out = append(out, cur.String())
			cur.Reset()
			continue
		}
		cur.WriteByte(s[i])
	}
	return append(out, cur.String())
}

func decodeInflux(c *capture, body []byte, batch int) {
	lines := strings.Split(strings.TrimSuffix(string(body), "\n"), "\n")
	if batch > 0 && len(lines) > batch {
		c.bad("influx request carries %d lines, metrics-per-batch is %d", len(lines), batch)
	}
	for _, l := range lines {
		parts := splitUnescaped(l, ' ')
		if len(parts) != 3 {
			c.bad("influx line %q does not have measurement, fields and timestamp", l)
			continue
		}
		if _, err := strconv.ParseInt(parts[2], 10, 64); err != nil {
			c.bad("influx line %q: bad timestamp", l)
		}
		mt := splitUnescaped(parts[0], ',')
		e := entry{Name: mt[0], Tags: sortedCopy(mt[1:])}
		for _, t := range mt[1:] {
			if kv := splitUnescaped(t, '='); len(kv) != 2 || kv[0] == "" || kv[1] == "" {
				c.bad("influx line %q: malformed tag %q", l, t)
			}
		}
		for _, f := range splitUnescaped(parts[1], ',') {
			kv := splitUnescaped(f, '=')
			if len(kv) != 2 || kv[0] == "" {
				c.bad("influx line %q: malformed field %q", l, f)
				continue
			}
			v, err := strconv.ParseFloat(kv[1], 64)
			if err != nil {
				c.bad("influx line %q: field %q is not numeric", l, f)
				continue
			}
			e.Tags = append(e.Tags, "field:"+kv[0])
			e.Vals = append(e.Vals, v)
		}
		sort.Float64s(e.Vals)
		c.entries = append(c.entries, e)
	}
}

// graphite / stdout plaintext: "path value timestamp"
func decodePlain(c *capture, body []byte, what string) {
	for _, l := range strings.Split(strings.TrimSuffix(string(body), "\n"), "\n") {
		if l == "" {
			continue
		}
		i := strings.LastIndexByte(l, ' ')
		j := -1
		if i > 0 {
			j = strings.LastIndexByte(l[:i], ' ')
		}
		if j <= 0 {
			c.bad("%s line %q is not 'path value timestamp'", what, l)
			continue
		}
		v, err1 := strconv.ParseFloat(l[j+1:i], 64)
		_, err2 := strconv.ParseInt(l[i+1:], 10, 64)
		if err1 != nil || err2 != nil {
			c.bad("%s line %q: value or timestamp not numeric", what, l)
			continue
		}
		path := l[:j]
		if what == "graphite" && strings.ContainsAny(strings.SplitN(path, ";", 2)[0], " \t") {
			c.bad("graphite path %q contains white space", path)
		}
		seg := strings.Split(path, ";")
		c.entries = append(c.entries, entry{Name: seg[0], Tags: sortedCopy(seg[1:]), Vals: []float64{v}})
	}
}

func attrStr(kvs []*commonpb.KeyValue) []string {
	var o []string
	for _, kv := range kvs {
		o = append(o, kv.Key+"="+kv.Value.String())
	}
	sort.Strings(o)
	return o
}

func decodeOTLP(c *capture, body []byte, batch int) {
	var req collmetrics.ExportMetricsServiceRequest
	if err := proto.Unmarshal(body, &req); err != nil {
		c.bad("otlp payload does not decode: %v", err)
		return
	}
	n := 0
	for _, rm := range req.ResourceMetrics {
		var ra []string
		if rm.Resource != nil {
			ra = attrStr(rm.Resource.Attributes)
		}
		for _, sm := range rm.ScopeMetrics {
			for _, m := range sm.Metrics {
				n++
				add := func(attrs []*commonpb.KeyValue, vals ...float64) {
					tags := append(append([]string{}, ra...), attrStr(attrs)...)
					sort.Strings(tags)
					sort.Float64s(vals)
					c.entries = append(c.entries, entry{Name: m.Name, Tags: tags, Vals: vals})
				}
				npv := func(dp *metricspb.NumberDataPoint) float64 {
					if x, ok := dp.Value.(*metricspb.NumberDataPoint_AsInt); ok {
						return float64(x.AsInt)
					}
					return dp.GetAsDouble()
				}
				switch d := m.Data.(type) {
				case *metricspb.Metric_Gauge:
					for _, dp := range d.Gauge.DataPoints {
						add(dp.Attributes, npv(dp))
					}
				case *metricspb.Metric_Sum:
					for _, dp := range d.Sum.DataPoints {
						add(dp.Attributes, npv(dp))
					}
				case *metricspb.Metric_Histogram:
					for _, dp := range d.Histogram.DataPoints {
						vals := []float64{float64(dp.Count), dp.GetSum()}
						for _, b := range dp.BucketCounts {
							vals = append(vals, float64(b))
						}
						add(dp.Attributes, vals...)
						c.entries[len(c.entries)-1].Hist = &histDP{Count: dp.Count, Sum: dp.GetSum(), Min: dp.GetMin(), Max: dp.GetMax(), HasMin: dp.Min != nil, HasMax: dp.Max != nil, Buckets: dp.BucketCounts, Bounds: dp.ExplicitBounds}
					}
				default:
					c.bad("otlp metric %s has no data", m.Name)
				}
			}
		}
	}
	if batch > 0 && n > batch {
		c.bad("otlp request carries %d metrics, metrics_per_batch is %d", n, batch)
	}
}

var lx = &lexer.Lexer{MetricPool: pool.NewMetricPool(0)}

func decodeRelay(c *capture, datagrams [][]byte, packet int) mapref.Agg {
	agg := mapref.Agg{}
	for _, d := range datagrams {
		if len(d) > packet && strings.Count(strings.TrimSuffix(string(d), "\n"), "\n") > 0 {
			c.bad("relay datagram of %d bytes exceeds %d although it holds several lines", len(d), packet)
		}
		for _, l := range strings.Split(strings.TrimSuffix(string(d), "\n"), "\n") {
			m, _, err := lx.Run([]byte(l), "")
			if err != nil || m == nil {
				c.bad("relay line %q is rejected by gostatsd's own parser: %v", l, err)
				continue
			}
			ty := map[gostatsd.MetricType]string{gostatsd.COUNTER: "c", gostatsd.GAUGE: "g", gostatsd.SET: "s", gostatsd.TIMER: "ms"}[m.Type]
			agg.Add(mapref.DP{Type: ty, Name: m.Name, Tags: append([]string{}, m.Tags...), Value: m.Value, Str: m.StringValue, Rate: m.Rate, TS: 0})
			c.entries = append(c.entries, entry{Name: l})
			m.Done()
		}
	}
	return agg
}

// ---------------------------------------------------------------------------------------------
// running one backend on one map

type runKey struct {
	kind  string
	batch int
	ms    string
}

// aggregateString renders everything a backend can read from the aggregate, values in the order they are stored
func aggregateString(mm *gostatsd.MetricMap) string {
	var o []string
	mm.Counters.Each(func(n, k string, c gostatsd.Counter) {
		o = append(o, fmt.Sprintf("c %s[%s] %v %v %v", n, k, c.Value, c.PerSecond, c.Tags))
	})
	mm.Gauges.Each(func(n, k string, g gostatsd.Gauge) {
		o = append(o, fmt.Sprintf("g %s[%s] %v %v", n, k, g.Value, g.Tags))
	})
	mm.Sets.Each(func(n, k string, s gostatsd.Set) {
		o = append(o, fmt.Sprintf("s %s[%s] %d %v", n, k, len(s.Values), s.Tags))
	})
	mm.Timers.Each(func(n, k string, t gostatsd.Timer) {
		o = append(o, fmt.Sprintf("ms %s[%s] values %v count %v min %v max %v sum %v mean %v median %v pct %v hist %v tags %v", n, k, t.Values, t.Count, t.Min, t.Max, t.Sum, t.Mean, t.Median, t.Percentiles, t.Histogram, t.Tags))
	})
	sort.Strings(o)
	return strings.Join(o, "; ")
}

func runBackend(kind string, batch int, ms mapSpec, mm *gostatsd.MetricMap) (*capture, mapref.Agg, string) {
	res.Evaluations++
	d, sub := disabled(ms.Mask)
	c := &capture{}
	var relay mapref.Agg
	if kind == "stdout" {
		decodePlain(c, stdout.VerifPreparePayload(mm, &sub).Bytes(), "stdout")
		c.payloads = 1
		return c, nil, ""
	}
	var b *bk.Built
	cbs := 0
	var cerr string
	o := vsched.RunOnce(func() {
		ctx, _ := fx.NewClock(context.Background())
		var err error
		opts := bk.Opts{BatchSize: batch, Disabled: d, Compress: batch%2 == 1, MaxRequests: 2}
		if strings.HasPrefix(kind, "otlp") && batch%2 == 1 {
			// odd batch sizes also split the series over several OTLP resources (by the value of tag k and by host);
			// the decoded entries are the same (resource and data point attributes are joined), the batch limit must hold
			opts.ResourceKeys = []string{"k", "host", "k"} // a key listed twice is accepted by the configuration
		}
		b, err = bk.New(kind, opts)
		if err != nil {
			cerr = err.Error()
			return
		}
		if b.Run != nil {
			vsched.GoNamed("backend.Run", func() { b.Run(ctx) })
		}
		// the backend gets a private copy of the aggregate and, as soon as SendMetricsAsync has returned, the copy is
		// overwritten the way the flusher's next steps (Reset, new datapoints) overwrite the aggregator's live map:
		// whatever the backend sends must have been taken from the map before it returned
		work := gostatsd.NewMetricMap(false)
		work.Merge(mm)
		before := aggregateString(work)
		b.Backend.SendMetricsAsync(ctx, work, func(errs []error) {
			if !vsched.Aborting() {
				cbs++
			}
		})
		// the aggregate is shared: every backend of the server is handed the same map, side by side
		if after := aggregateString(work); after != before {
			c.mutated = fmt.Sprintf("before the call: %s\nafter the call:  %s", before, after)
		}
		overwrite(work)
		vsched.Quiesce("sent")
	})
	if cerr != "" {
		return nil, nil, "construct: " + cerr
	}
	if o.Kind != "ok" {
		return nil, nil, o.Kind + ": " + o.Detail
	}
	if cbs != 1 {
		return nil, nil, fmt.Sprintf("%d callbacks", cbs)
	}
	switch {
	case kind == "datadog":
		for _, r := range b.Env.RT.Requests {
			decodeDatadog(c, r.Body, batch)
			c.payloads++
		}
	case strings.HasPrefix(kind, "newrelic"):
		for _, r := range b.Env.RT.Requests {
			decodeNewRelic(c, r.Body, kind)
			c.payloads++
		}
	case strings.HasPrefix(kind, "influxdb"):
		for _, r := range b.Env.RT.Requests {
			decodeInflux(c, r.Body, batch)
			c.payloads++
		}
	case strings.HasPrefix(kind, "otlp"):
		for _, r := range b.Env.RT.Requests {
			decodeOTLP(c, r.Body, batch)
			c.payloads++
		}
	case strings.HasPrefix(kind, "graphite"):
		for _, w := range b.Env.Net.Writes {
			decodePlain(c, w, "graphite")
			c.payloads++
		}
	case strings.HasPrefix(kind, "statsdaemon"):
		packet := 1472
		if kind == "statsdaemon-tcp" {
			packet = 1 << 20
		}
		relay = decodeRelay(c, b.Env.Net.Writes, packet)
		c.payloads = len(b.Env.Net.Writes)
	case kind == "cloudwatch":
		for _, call := range b.Env.CW.Calls {
			c.payloads++
			if len(call.MetricData) > 20 {
				c.bad("cloudwatch call carries %d data, limit 20", len(call.MetricData))
			}
			for _, md := range call.MetricData {
				var dims []string
				for _, dm := range md.Dimensions {
					dims = append(dims, *dm.Name+"="+*dm.Value)
				}
				if len(dims) > 10 {
					c.bad("cloudwatch datum %s has %d dimensions", *md.MetricName, len(dims))
				}
				sort.Strings(dims)
				c.entries = append(c.entries, entry{Name: *md.MetricName, Tags: dims, Vals: []float64{*md.Value}})
			}
		}
	}
	return c, relay, ""
}

func overwrite(mm *gostatsd.MetricMap) {
	for _, m := range mm.Counters {
		for k, c := range m {
			c.Value, c.PerSecond = -777, -777
			m[k] = c
		}
	}
	for _, m := range mm.Gauges {
		for k, g := range m {
			g.Value = -777
			m[k] = g
		}
	}
	for _, m := range mm.Timers {
		for k, t := range m {
			m[k] = gostatsd.Timer{Tags: t.Tags, Source: t.Source, Timestamp: t.Timestamp, Values: []float64{-777}, Count: -777, Min: -777, Max: -777, Sum: -777, Mean: -777, Median: -777}
		}
	}
	for _, m := range mm.Sets {
		for k, st := range m {
			st.Values = map[string]struct{}{"overwritten": {}}
			m[k] = st
		}
	}
}

func multiset(es []entry) map[string]int {
	m := map[string]int{}
	for _, e := range es {
		m[e.key()]++
	}
	return m
}

func diffMultiset(a, b map[string]int) string {
	for k, n := range a {
		if b[k] != n {
			return fmt.Sprintf("entry %q: %d vs %d", k, n, b[k])
		}
	}
	for k, n := range b {
		if a[k] != n {
			return fmt.Sprintf("entry %q: %d vs %d", k, a[k], n)
		}
	}
	return ""
}

// expected values of one flushed series for the backends with the regular sub-metric scheme
func regularValues(mm *gostatsd.MetricMap, mask int) []float64 {
	d, _ := disabled(mask)
	var v []float64
	mm.Counters.Each(func(_, _ string, c gostatsd.Counter) { v = append(v, float64(c.Value), c.PerSecond) })
	mm.Gauges.Each(func(_, _ string, g gostatsd.Gauge) { v = append(v, g.Value) })
	mm.Sets.Each(func(_, _ string, s gostatsd.Set) { v = append(v, float64(len(s.Values))) })
	mm.Timers.Each(func(_, _ string, t gostatsd.Timer) {
		if t.Histogram != nil {
			for _, n := range t.Histogram {
				v = append(v, float64(n))
			}
			return
		}
		add := func(k string, x float64) {
			if !d[k] {
				v = append(v, x)
			}
		}
		add("lower", t.Min)
		add("upper", t.Max)
		add("count", float64(t.Count))
		add("count-per-second", t.PerSecond)
		add("mean", t.Mean)
		add("median", t.Median)
		add("stddev", t.StdDev)
		add("sum", t.Sum)
		add("sum-squares", t.SumSquares)
		for _, p := range t.Percentiles {
			v = append(v, p.Float)
		}
	})
	sort.Float64s(v)
	return v
}

var regular = map[string]bool{"datadog": true, "influxdb1": true, "influxdb2": true, "otlp-gauge": true, "graphite-tags": true, "graphite-basic": true, "graphite-legacy": true, "cloudwatch": true, "stdout": true}

func normName(s string) string {
	var b strings.Builder
	for _, r := range s {
		if (r >= 'a' && r <= 'z') || (r >= 'A' && r <= 'Z') || (r >= '0' && r <= '9') {
			b.WriteRune(r)
		}
	}
	return b.String()
}

// expected tag rendering / host per backend (BACKENDS.md and the formats themselves)
func checkTagsHost(kind string, s ser, e entry) string {
	has := func(t string) bool {
		for _, x := range e.Tags {
			if x == t {
				return true
			}
		}
		return false
	}
	hostTag := false
	for _, t := range s.Tags {
		if strings.HasPrefix(t, "host:") {
			hostTag = true
		}
	}
	switch kind {
	case "datadog":
		if e.Host != s.Source {
			return fmt.Sprintf("host %q, want %q", e.Host, s.Source)
		}
		for _, t := range s.Tags {
			if !has(t) {
				return "tag " + t + " missing"
			}
		}
	case "graphite-tags":
		for _, t := range s.Tags {
			w := "unnamed=" + t
			if strings.Contains(t, ":") {
				w = strings.Replace(t, ":", "=", 1)
			}
			if !has(w) {
				return "tag " + w + " missing in " + fmt.Sprint(e.Tags)
			}
		}
		if s.Source != "" && !hostTag && !has("host="+s.Source) {
			return "host tag missing"
		}
		// exactly the series' tags, plus host=<source> when it has a source and no host: tag of its own
		wantN := len(s.Tags)
		if s.Source != "" && !hostTag {
			wantN++
		}
		nh, nle := 0, 0
		for _, x := range e.Tags {
			if strings.HasPrefix(x, "host=") {
				nh++
			}
			if strings.HasPrefix(x, "le=") {
				nle++ // histogram bucket label
			}
		}
		if len(e.Tags)-nle != wantN || nh > 1 {
			return fmt.Sprintf("tags %v: want the %d tags of the series%s and nothing else (host given %d times)", e.Tags, len(s.Tags), map[bool]string{true: " plus host=" + s.Source}[s.Source != "" && !hostTag], nh)
		}
	case "graphite-basic", "graphite-legacy":
		if len(e.Tags) != 0 {
			return "tags present although tags are disabled"
		}
	case "cloudwatch":
		n, limit := len(s.Tags), 10 // CloudWatch takes ten dimensions; a histogram bucket's label needs one of them
		for _, x := range e.Tags {
			if strings.HasPrefix(x, "le=") {
				limit = 9
			}
		}
		if n > limit {
			n = limit
		}
		for _, t := range s.Tags[:n] {
			w := t + "=set"
			if strings.Contains(t, ":") {
				w = strings.Replace(t, ":", "=", 1)
			}
			if !has(w) && !strings.HasPrefix(t, "gsd_histogram") {
				return "dimension " + w + " missing in " + fmt.Sprint(e.Tags)
			}
		}
	case "otlp-gauge":
		if s.Source != "" && !hostTag {
			ok := false
			for _, x := range e.Tags {
				if strings.HasPrefix(x, "host=") && strings.Contains(x, s.Source) {
					ok = true
				}
			}
			if !ok {
				return "host attribute missing in " + fmt.Sprint(e.Tags)
			}
		}
	}
	return ""
}

func specString(ms mapSpec) string {
	return fmt.Sprintf("%v/p%v/m%d/l%v", ms.Series, ms.Pct, ms.Mask, ms.Limit0)
}

// checkLimit0: with timer-histogram-limit=0 a histogram-tagged timer is reported by no backend (the statsd
// relay, which forwards raw values instead of aggregates, excepted)
func checkLimit0(ms mapSpec, kinds []string) {
	mm := flushed(ms)
	for _, kind := range kinds {
		if strings.HasPrefix(kind, "statsdaemon") {
			continue
		}
		c, _, problem := runBackend(kind, 0, ms, mm)
		rp := map[string]any{"spec": ms, "kind": kind, "batch": 0}
		if problem != "" {
			res.Violate("run "+kind, fmt.Sprintf("backend %s map %s (%v): %s", kind, specString(ms), describe(ms), problem), rp)
			continue
		}
		for _, i := range ms.Series {
			s := menu[i]
			if s.Type != "ms" || len(s.Tags) == 0 || !strings.HasPrefix(s.Tags[0], "gsd_histogram") {
				continue
			}
			for _, e := range c.entries {
				if strings.Contains(e.Name, s.Name) {
					res.Violate("histogram-limit-0-reports "+kind, fmt.Sprintf("backend %s map %s (%v): with timer-histogram-limit=0 the histogram-tagged timer %s must report nothing, but the payload has %q", kind, specString(ms), describe(ms), s.Name, e.key()), rp)
					break
				}
			}
		}
		nontrivial[kind+"limit0"+specString(ms)] = struct{}{}
	}
}

var singleCache = map[string][]entry{}

func checkMap(ms mapSpec, kinds []string) {
	mm := flushed(ms)
	batches := []int{0, 1, 2, 3, 4, 5, 6}
	for _, kind := range kinds {
		var base map[string]int
		var baseEntries []entry
		for _, batch := range batches {
			if batch > 0 && !(kind == "datadog" || strings.HasPrefix(kind, "newrelic") || strings.HasPrefix(kind, "influxdb") || strings.HasPrefix(kind, "otlp")) {
				continue // no batch-size setting
			}
			rp := map[string]any{"spec": ms, "kind": kind, "batch": batch}
			bad := func(k, msg string) {
				res.Violate(k+" "+kind, fmt.Sprintf("%s: backend %s batch=%d map %s (%v): %s", k, kind, batch, specString(ms), describe(ms), msg), rp)
			}
			c, relay, problem := runBackend(kind, batch, ms, mm)
			if problem != "" {
				bad("run", problem)
				continue
			}
			for _, p := range c.problems {
				bad("malformed-or-limit", p)
			}
			if c.mutated != "" {
				bad("aggregate-changed", "SendMetricsAsync changed the aggregate it was handed (the other backends are handed the same map):\n"+c.mutated)
			}
			cur := multiset(c.entries)
			if len(c.entries) >= 2 {
				nontrivial[kind+fmt.Sprint(batch)+specString(ms)] = struct{}{}
			}
			for k, n := range cur {
				if n > 1 && !strings.HasPrefix(kind, "graphite-b") && !strings.HasPrefix(kind, "graphite-l") && kind != "statsdaemon-udp" && kind != "statsdaemon-tcp" && !collides(ms) {
					bad("duplicate-entry", fmt.Sprintf("entry %q appears %d times", k, n))
				}
			}
			if batch == 0 {
				base, baseEntries = cur, c.entries
			} else if d := diffMultiset(base, cur); d != "" {
				bad("batching-changes-content", "entries differ from the unbatched flush: "+d)
			}
			// relay round trip
			if relay != nil {
				want := mapref.Agg{}
				for _, i := range ms.Series {
					s := menu[i]
					for _, v := range s.Vals {
						tags := append([]string{}, s.Tags...)
						if s.Source != "" {
							tags = append(tags, "s:"+s.Source)
						}
						want.Add(mapref.DP{Type: s.Type, Name: s.Name, Tags: tags, Value: v, Str: fmt.Sprint("m", v), Rate: 1})
					}
				}
				// the relay forwards aggregated counters and the last gauge value
				for _, w := range want {
					if w.Type == "g" {
						w.GaugeCands = []float64{w.GaugeLast}
					}
				}
				if d := mapref.Diff(relay, want, "last", false); d != "" {
					bad("relay-roundtrip", d)
				}
			}
		}
		// series isolation: entries of the map = union of the entries of its single-series maps
		if len(ms.Series) > 1 && !strings.HasPrefix(kind, "statsdaemon") {
			union := map[string]int{}
			for _, i := range ms.Series {
				one := mapSpec{[]int{i}, ms.Pct, ms.Mask, false}
				k := kind + specString(one)
				es, ok := singleCache[k]
				if !ok {
					c, _, problem := runBackend(kind, 0, one, flushed(one))
					if problem == "" {
						es = c.entries
					}
					singleCache[k] = es
				}
				for kk, n := range multiset(es) {
					union[kk] += n
				}
			}
			if d := diffMultiset(base, union); d != "" && !collides(ms) {
				res.Violate("series-not-independent "+kind, fmt.Sprintf("backend %s map %s (%v): entries of the map differ from the union of its series' own entries: %s", kind, specString(ms), describe(ms), d), map[string]any{"spec": ms, "kind": kind, "batch": 0})
			}
		}
		// single timer series converted to an OTLP histogram data point: count, sum, min, max and bucket counts
		if len(ms.Series) == 1 && kind == "otlp-histogram" && menu[ms.Series[0]].Type == "ms" {
			s := menu[ms.Series[0]]
			var hs []*histDP
			for _, e := range baseEntries {
				if e.Hist != nil {
					hs = append(hs, e.Hist)
				}
			}
			rp := map[string]any{"spec": ms, "kind": kind, "batch": 0}
			if len(hs) != 1 {
				res.Violate("otlp-histogram-points "+kind, fmt.Sprintf("backend %s series %+v: %d histogram data points, want 1", kind, s, len(hs)), rp)
			} else {
				h := hs[0]
				sum, lo, hi := 0.0, math.Inf(1), math.Inf(-1)
				for _, v := range s.Vals {
					sum, lo, hi = sum+v, math.Min(lo, v), math.Max(hi, v)
				}
				if h.Count != uint64(len(s.Vals)) || math.Abs(h.Sum-sum) > 1e-9 || !h.HasMin || !h.HasMax || h.Min != lo || h.Max != hi {
					res.Violate("otlp-histogram-statistics "+kind, fmt.Sprintf("backend %s series %+v: data point count=%d sum=%v min=%v max=%v, the received values have count=%d sum=%v min=%v max=%v", kind, s, h.Count, h.Sum, h.Min, h.Max, len(s.Vals), sum, lo, hi), rp)
				}
				if len(s.Tags) > 0 && strings.HasPrefix(s.Tags[0], "gsd_histogram:") {
					var bounds []float64
					for _, f := range strings.Split(strings.TrimPrefix(s.Tags[0], "gsd_histogram:"), "_") {
						if x, err := strconv.ParseFloat(f, 64); err == nil {
							bounds = append(bounds, x)
						}
					}
					sort.Float64s(bounds)
					want := make([]uint64, len(bounds)+1)
					for _, v := range s.Vals {
						i := sort.SearchFloat64s(bounds, v) // first bound >= v
						want[i]++
					}
					if fmt.Sprint(h.Bounds) != fmt.Sprint(bounds) || fmt.Sprint(h.Buckets) != fmt.Sprint(want) {
						res.Violate("otlp-histogram-buckets "+kind, fmt.Sprintf("backend %s series %+v: explicit bounds %v bucket counts %v, want %v %v (per bucket, not cumulative)", kind, s, h.Bounds, h.Buckets, bounds, want), rp)
					}
				}
			}
		}
		// single series: reference expansion
		if len(ms.Series) == 1 && regular[kind] {
			s := menu[ms.Series[0]]
			want := regularValues(mm, ms.Mask)
			var got []float64
			for _, e := range baseEntries {
				got = append(got, e.Vals...)
				if !strings.Contains(normName(e.Name), normName(s.Name)) {
					res.Violate("entry-without-series-name "+kind, fmt.Sprintf("backend %s series %+v: entry %q does not carry the series name", kind, s, e.Name), map[string]any{"spec": ms, "kind": kind, "batch": 0})
				}
				if d := checkTagsHost(kind, s, e); d != "" {
					res.Violate("tags-or-host "+kind, fmt.Sprintf("backend %s series %+v entry %q: %s", kind, s, e.Name, d), map[string]any{"spec": ms, "kind": kind, "batch": 0})
				}
			}
			// histogram buckets: every bound label once
			mm.Timers.Each(func(_, _ string, t gostatsd.Timer) {
				if kind == "graphite-basic" || kind == "graphite-legacy" {
					return // these modes carry no tags at all, the bucket label included
				}
				for b := range t.Histogram {
					label := "+Inf"
					if !math.IsInf(float64(b), 1) {
						label = strconv.FormatFloat(float64(b), 'f', -1, 64)
					}
					n := 0
					for _, e := range baseEntries {
						for _, tg := range e.Tags {
							if i := strings.Index(tg, "le"); i >= 0 && strings.Contains(tg[i:], label) {
								n++
								break
							}
						}
						if strings.Contains(e.Name, "le:"+label) || strings.Contains(e.Name, "le."+label) {
							n++
						}
					}
					if n != 1 && !(label != "+Inf" && strings.Contains("+Inf", label)) {
						res.Violate("histogram-bucket-label "+kind, fmt.Sprintf("backend %s series %+v: %d entries carry the bucket label le=%s, want exactly 1; entries %v", kind, s, n, label, baseEntries), map[string]any{"spec": ms, "kind": kind, "batch": 0})
					}
				}
			})
			sort.Float64s(got)
			ok := len(got) == len(want)
			for i := 0; ok && i < len(got); i++ {
				// an infinite value may be sent as it is or as the largest finite number (what JSON can carry)
				ok = got[i] == want[i] || (math.IsInf(want[i], 0) && got[i] == math.Copysign(math.MaxFloat64, want[i])) || math.Abs(got[i]-want[i]) <= 1e-6*math.Max(1, math.Abs(want[i]))
			}
			if !ok {
				res.Violate("sub-metric-values "+kind, fmt.Sprintf("backend %s series %+v mask %d: emitted values %v, enabled sub-metrics' values %v", kind, s, ms.Mask, got, want), map[string]any{"spec": ms, "kind": kind, "batch": 0})
			}
		}
	}
}

// collides: two series of the map are rendered identically by backends that drop tags/source
func collides(ms mapSpec) bool {
	seen := map[string]bool{}
	for _, i := range ms.Series {
		k := menu[i].Type + menu[i].Name
		if seen[k] {
			return true
		}
		seen[k] = true
	}
	return false
}

func describe(ms mapSpec) string {
	var o []string
	for _, i := range ms.Series {
		o = append(o, fmt.Sprintf("%s:%s%v@%s", menu[i].Type, menu[i].Name, menu[i].Tags, menu[i].Source))
	}
	return strings.Join(o, " ")
}

func hasHistogram(series []int) bool {
	for _, i := range series {
		if menu[i].Type == "ms" && len(menu[i].Tags) > 0 && strings.HasPrefix(menu[i].Tags[0], "gsd_histogram") {
			return true
		}
	}
	return false
}

func hasTimer(series []int) bool {
	for _, i := range series {
		if menu[i].Type == "ms" {
			return true
		}
	}
	return false
}

// packing describes one flush of the datagram-packing sweep of the statsd relay: a counter whose name has
// NameLen characters followed by N values of one timer, all with or without a tag. Every line of the
// timer has the same length, so sweeping NameLen over more than one line length puts the fill level
// of the first datagram at every residue - in particular one byte below, at and above the limit.
type packing struct {
	NameLen int
	N       int
	Tagged  bool
}

func checkPacking(pk packing) {
	mm := gostatsd.NewMetricMap(false)
	var tags gostatsd.Tags
	var wtags []string
	if pk.Tagged {
		tags, wtags = gostatsd.Tags{"a:b"}, []string{"a:b"}
	}
	name := strings.Repeat("c", pk.NameLen)
	mm.Receive(&gostatsd.Metric{Name: name, Type: gostatsd.COUNTER, Value: 1, Rate: 1, Tags: tags.Copy(), Timestamp: 7})
	want := mapref.Agg{}
	want.Add(mapref.DP{Type: "c", Name: name, Tags: wtags, Value: 1, Rate: 1})
	for i := 0; i < pk.N; i++ {
		mm.Receive(&gostatsd.Metric{Name: "t", Type: gostatsd.TIMER, Value: 1, Rate: 1, Tags: tags.Copy(), Timestamp: 7})
		want.Add(mapref.DP{Type: "ms", Name: "t", Tags: wtags, Value: 1, Rate: 1})
	}
	for _, kind := range []string{"statsdaemon-udp", "statsdaemon-tcp"} {
		rp := map[string]any{"packing": pk, "kind": kind}
		c, relay, problem := runBackend(kind, 0, mapSpec{}, mm)
		if problem != "" {
			res.Violate("run "+kind, fmt.Sprintf("packing %+v: %s", pk, problem), rp)
			continue
		}
		for _, p := range c.problems {
			res.Violate("relay-packing "+kind, fmt.Sprintf("backend %s, counter with a %d character name then %d timer values (tagged=%v): %s", kind, pk.NameLen, pk.N, pk.Tagged, p), rp)
		}
		if d := mapref.Diff(relay, want, "last", false); d != "" {
			res.Violate("relay-packing-roundtrip "+kind, fmt.Sprintf("backend %s packing %+v: %s", kind, pk, d), rp)
		}
		if kind == "statsdaemon-udp" && c.payloads >= 2 {
			nontrivial[fmt.Sprintf("packing%+v", pk)] = struct{}{}
		}
	}
}

// ---- events through the statsd relay: what it writes must parse back, under gostatsd's own parser, to the
// same event fields.

func checkRelayEvents() {
	titles := []string{"t", "a b|c", "é"}
	texts := []string{"", "x", "l1\nl2", "\nlead", "a\nb\n", "p|q", "back\\slash"}
	tagLists := []gostatsd.Tags{nil, {"t"}, {"k:v", "bare", "s:src"}}
	var i int64
	for _, kind := range []string{"statsdaemon-udp", "statsdaemon-tcp"} {
		b, err := bk.New(kind, bk.Opts{})
		if err != nil {
			res.Violate("run "+kind, err.Error(), nil)
			continue
		}
		for _, ti := range titles {
			for _, tx := range texts {
				for _, date := range []int64{0, 1700000000} {
					for _, host := range []gostatsd.Source{"", "h"} {
						for _, key := range []string{"", "agg"} {
							for _, st := range []string{"", "src"} {
								for _, pri := range []gostatsd.Priority{gostatsd.PriNormal, gostatsd.PriLow} {
									for _, al := range []gostatsd.AlertType{gostatsd.AlertInfo, gostatsd.AlertWarning, gostatsd.AlertError, gostatsd.AlertSuccess} {
										i++
										if !vrt.Mine(i) {
											continue
										}
										tags := tagLists[int(i)%len(tagLists)]
										e := &gostatsd.Event{Title: ti, Text: tx, DateHappened: date, Source: host, AggregationKey: key, SourceTypeName: st, Priority: pri, AlertType: al, Tags: tags.Copy()}
										relayEvent(kind, b, e)
									}
								}
							}
						}
					}
				}
			}
		}
	}
}

func relayEvent(kind string, b *bk.Built, e *gostatsd.Event) {
	res.Evaluations++
	rp := map[string]any{"event": e, "kind": kind}
	bad := func(msg string) {
		res.Violate("relay-event "+kind, fmt.Sprintf("backend %s event %+v: %s", kind, *e, msg), rp)
	}
	b.Env.Net.Writes = nil
	want := *e
	want.Tags = e.Tags.Copy()
	if err := b.Backend.SendEvent(context.Background(), e); err != nil {
		bad("SendEvent failed: " + err.Error())
		return
	}
	if len(b.Env.Net.Writes) != 1 {
		bad(fmt.Sprintf("%d writes for one event", len(b.Env.Net.Writes)))
		return
	}
	line := strings.TrimSuffix(string(b.Env.Net.Writes[0]), "\n")
	m, got, err := lx.Run([]byte(line), "")
	if err != nil || m != nil || got == nil {
		bad(fmt.Sprintf("the relayed line %q is rejected by gostatsd's own parser: %v", line, err))
		return
	}
	if got.Title != want.Title || got.Text != want.Text || got.DateHappened != want.DateHappened || got.Source != want.Source || got.AggregationKey != want.AggregationKey ||
		got.SourceTypeName != want.SourceTypeName || got.Priority != want.Priority || got.AlertType != want.AlertType || fmt.Sprint([]string(got.Tags)) != fmt.Sprint([]string(want.Tags)) {
		bad(fmt.Sprintf("the relayed line %q parses back to %+v", line, *got))
		return
	}
	nontrivial["ev"+kind+line] = struct{}{}
}

func main() {
	res = vrt.Init()
	if *vrt.ReplayPath != "" {
		var rp struct {
			Spec       mapSpec
			Kind       string
			Underscore bool
			Packing    *packing
			Event      *gostatsd.Event
			Slow       *slowCase
		}
		vrt.LoadReplay(&rp)
		if rp.Slow != nil {
			checkSlowRelay(*rp.Slow)
		} else if rp.Event != nil {
			b, err := bk.New(rp.Kind, bk.Opts{})
			if err != nil {
				panic(err)
			}
			relayEvent(rp.Kind, b, rp.Event)
		} else if rp.Packing != nil {
			checkPacking(*rp.Packing)
		} else if rp.Underscore {
			menu = append(menu, ser{"c", "_x", []string{"k:v"}, "h", []float64{2}})
			c, _, _ := runBackend(rp.Kind, 0, rp.Spec, flushed(rp.Spec))
			for _, p := range c.problems {
				res.Violate("relay-leading-underscore "+rp.Kind, p, nil)
			}
		} else {
			checkMap(rp.Spec, []string{rp.Kind})
		}
		for _, v := range res.Violations {
			fmt.Println(v.Key, "\n ", v.Msg)
		}
		if len(res.Violations) > 0 {
			fmt.Printf("VIOLATION property=C17 replay=%s\n", *vrt.ReplayPath)
			os.Exit(1)
		}
		fmt.Println("no violation")
		return
	}
	var specs [][]int
	for a := range menu {
		specs = append(specs, []int{a})
		for b := a + 1; b < len(menu); b++ {
			specs = append(specs, []int{a, b})
			for c := b + 1; c < len(menu); c++ {
				if (a+b+c)%3 == 0 || vrt.Thorough() {
					specs = append(specs, []int{a, b, c})
				}
				if vrt.Thorough() {
					for d := c + 1; d < len(menu); d += 4 {
						specs = append(specs, []int{a, b, c, d})
					}
				}
			}
		}
	}
	res.Info["maps"] = len(specs)
	var i int64
	for _, sp := range specs {
		masks := []int{0}
		if hasTimer(sp) && len(sp) <= 2 {
			for m := 1; m < 4+len(subKeys); m++ {
				masks = append(masks, m)
			}
		}
		for _, pct := range []bool{false, true} {
			if pct && !hasTimer(sp) {
				continue
			}
			for _, m := range masks {
				i++
				if !vrt.Mine(i) || vrt.Expired() {
					continue
				}
				checkMap(mapSpec{sp, pct, m, false}, bk.Kinds)
				if m == 0 && len(sp) <= 2 && hasHistogram(sp) {
					checkLimit0(mapSpec{sp, pct, 0, true}, bk.Kinds)
				}
			}
		}
	}
	// a series whose name starts with '_' is reachable (the line "!_x:1|c" normalises to it, and HTTP
	// ingestion carries any name); the relay then emits "_x:1|c...", which gostatsd's own parser treats
	// as a Datadog special and rejects
	if *vrt.Shard == 0 {
		menu = append(menu, ser{"c", "_x", []string{"k:v"}, "h", []float64{2}})
		ms := mapSpec{[]int{len(menu) - 1}, false, 0, false}
		mm := flushed(ms)
		for _, kind := range []string{"statsdaemon-udp", "statsdaemon-tcp"} {
			c, _, problem := runBackend(kind, 0, ms, mm)
			if problem != "" {
				res.Violate("run "+kind, problem, nil)
				continue
			}
			for _, p := range c.problems {
				res.Violate("relay-leading-underscore "+kind, "series named _x (reachable from the line \"!_x:1|c\"): "+p, map[string]any{"spec": ms, "kind": kind, "underscore": true})
			}
		}
		menu = menu[:len(menu)-1]
	}
	checkRelayEvents()
	for _, sc := range slowCases() {
		i++
		if vrt.Mine(i) {
			checkSlowRelay(sc)
		}
	}
	// datagram packing of the relay at every fill level around the limit
	for _, tagged := range []bool{false, true} {
		for k := 1; k <= 24; k++ {
			for _, n := range []int{90, 120, 230} {
				i++
				if vrt.Mine(i) {
					checkPacking(packing{k, n, tagged})
				}
			}
		}
	}
	if vrt.Expired() {
		res.Exhaustive = false
	}
	res.Sample(map[string]any{"map": describe(mapSpec{[]int{1, 8, 11}, true, 0, false}), "backends": bk.Kinds, "batch_sizes": []int{0, 1, 2, 3, 4, 5, 6}})
	res.SetDistinctKeys(nontrivial)
	res.States = int64(len(nontrivial))
	res.Transitions = res.Evaluations
	res.Traces = res.Evaluations
	res.Finish()
}
