// C08: timer statistics and histograms are those of the received multiset.
package main

import (
	"fmt"
	"math"
	"os"
	"runtime/debug"
	"sort"
	"strings"
	"time"

	"github.com/atlassian/gostatsd"
	"github.com/atlassian/gostatsd/internal/verif/ref/timerref"
	"github.com/atlassian/gostatsd/internal/verif/vrt"
	"github.com/atlassian/gostatsd/pkg/statsd"
)

var res *vrt.Result
var distinct = map[string]struct{}{}

type tcase struct {
	Values   []float64
	RatePat  int
	Grouping int // 0: one batch, 1: one batch per value, 2: one batch per value, every batch stamped earlier than the one before (and than the earlier flush of Prior): maps overtaking one another between parser and aggregator
	Pcts     []float64
	Interval time.Duration
	Mask     int // 0 none, 1 all, 2.. single
	HistTag  string
	HistLim  uint32
	Hist     bool
	// Neighbour: a second series of the same name with another tag set (one value 7 at rate 0.25) shares the
	// batches: 1 = it arrives first, 2 = it arrives last. Its own statistics are checked as well.
	Neighbour int
	// Prior: the series already went through an earlier interval with other values (100 and -50 at rate 0.5),
	// flushed and reset, before the values under test arrive
	Prior bool `json:",omitempty"`
}

var ratePats = [][]float64{{1}, {0.5}, {0.5, 0.25}, {0.4}} // 1/0.4 = 2.5: sums of 1/rate that end in .5
var pctMenu = []float64{-100, -90, -50, -25, -1, 1, 25, 50, 90, 99, 100, 0} // 25 and 50: k = |p|/100*n ends in .5 for small n
var intervals = []time.Duration{time.Second / 2, time.Second, 10 * time.Second}
var pctStats = []string{"count", "mean", "sum", "sum_squares", "upper", "lower"}

// masks 8..16 disable one of the plain (non-percentile) sub-metrics: the statistics that stay enabled must not change
var plainStats = []string{"lower", "upper", "count", "count-per-second", "mean", "median", "stddev", "sum", "sum-squares"}
var plainField = map[string]string{"lower": "min", "upper": "max", "count": "count", "count-per-second": "per_second", "mean": "mean", "median": "median", "stddev": "stddev", "sum": "sum", "sum-squares": "sum_squares"}

func mask(m int) (gostatsd.TimerSubtypes, map[string]bool) {
	d := map[string]bool{}
	switch {
	case m >= 8:
		k := plainStats[m-8]
		return gostatsd.TimerSubtypes{Lower: k == "lower", Upper: k == "upper", Count: k == "count", CountPerSecond: k == "count-per-second", Mean: k == "mean", Median: k == "median", StdDev: k == "stddev", Sum: k == "sum", SumSquares: k == "sum-squares"}, d
	case m == 1:
		for _, s := range pctStats {
			d[s] = true
		}
	case m >= 2:
		d[pctStats[m-2]] = true
	}
	return gostatsd.TimerSubtypes{CountPct: d["count"], MeanPct: d["mean"], SumPct: d["sum"], SumSquaresPct: d["sum_squares"], UpperPct: d["upper"], LowerPct: d["lower"]}, d
}

// disabledKeys: the mask as keys of the [disabled-sub-metrics] configuration table
func disabledKeys(m int) map[string]bool {
	_, d := mask(m)
	out := map[string]bool{}
	if m >= 8 {
		out[plainStats[m-8]] = true
	}
	for k, v := range d {
		out[map[string]string{"count": "count-pct", "mean": "mean-pct", "sum": "sum-pct", "sum_squares": "sum-squares-pct", "upper": "upper-pct", "lower": "lower-pct"}[k]] = v
	}
	return out
}

func runCase(c tcase) (t gostatsd.Timer, found bool, panicMsg string) {
	t, found, _, _, panicMsg = run2(c)
	return
}

func run2(c tcase) (t gostatsd.Timer, found bool, sib gostatsd.Timer, sibFound bool, panicMsg string) {
	defer func() {
		if p := recover(); p != nil {
			panicMsg = fmt.Sprintf("%v\n%s", p, debug.Stack())
		}
	}()
	ag := statsd.VerifWiredAggregator(*verifServer([]string{verifPctArg(c.Pcts), "--expiry-interval=1h", fmt.Sprintf("--timer-histogram-limit=%d", c.HistLim)}, disabledKeys(c.Mask)))
	var tags gostatsd.Tags
	if c.Hist {
		tags = gostatsd.Tags{"gsd_histogram:" + c.HistTag}
	}
	rp := ratePats[c.RatePat]
	const baseTs = gostatsd.Nanotime(1_000_000_000_000_000)
	priorTs := baseTs - 1000
	stamp := func(i int) gostatsd.Nanotime { return baseTs + gostatsd.Nanotime(i) }
	if c.Grouping == 2 {
		priorTs = baseTs + 1000
		stamp = func(i int) gostatsd.Nanotime { return baseTs - gostatsd.Nanotime(i) }
	}
	if c.Prior {
		pm := gostatsd.NewMetricMap(false)
		for _, v := range []float64{100, -50} {
			pm.Receive(&gostatsd.Metric{Name: "t", Type: gostatsd.TIMER, Value: v, Rate: 0.5, Tags: append(gostatsd.Tags{}, tags...), Timestamp: priorTs})
		}
		ag.ReceiveMap(pm)
		ag.Flush(c.Interval)
		ag.Process(func(*gostatsd.MetricMap) {})
		ag.Reset()
	}
	mm := gostatsd.NewMetricMap(false)
	neighbour := func() {
		mm.Receive(&gostatsd.Metric{Name: "t", Type: gostatsd.TIMER, Value: 7, Rate: 0.25, Tags: gostatsd.Tags{"sib:1"}, Timestamp: baseTs})
	}
	if c.Neighbour == 1 {
		neighbour()
	}
	for i, v := range c.Values {
		mm.Receive(&gostatsd.Metric{Name: "t", Type: gostatsd.TIMER, Value: v, Rate: rp[i%len(rp)], Tags: append(gostatsd.Tags{}, tags...), Timestamp: stamp(i)})
		if c.Grouping >= 1 {
			ag.ReceiveMap(mm)
			mm = gostatsd.NewMetricMap(false)
		}
	}
	if c.Neighbour == 2 {
		neighbour()
	}
	ag.ReceiveMap(mm) // (empty when every value went in a batch of its own)
	ag.Flush(c.Interval)
	ag.Process(func(m *gostatsd.MetricMap) {
		m.Timers.Each(func(name, tk string, tm gostatsd.Timer) {
			if len(tm.Tags) == 1 && tm.Tags[0] == "sib:1" {
				sib, sibFound = tm, true
				return
			}
			t, found = tm, true
		})
	})
	return
}

func check(c tcase) {
	res.Evaluations++
	bad := func(kind, msg string) {
		res.Violate(kind, fmt.Sprintf("%s: case %+v: %s", kind, c, msg), c)
	}
	t, found, sib, sibFound, pm := run2(c)
	if pm != "" {
		bad("panic "+strings.SplitN(pm, "\n", 2)[0], pm)
		return
	}
	if c.Neighbour != 0 {
		iv := float64(c.Interval) / float64(time.Second)
		if !sibFound {
			bad("neighbour-missing", "the neighbouring series was not reported")
		} else if sib.Count != 4 || !timerref.Close(sib.PerSecond, 4/iv) || sib.Min != 7 || sib.Max != 7 || sib.Sum != 7 || len(sib.Values) != 1 {
			bad("neighbour-stats", fmt.Sprintf("neighbouring series (one value 7 at rate 0.25): count=%d per_second=%v min=%v max=%v sum=%v values=%v", sib.Count, sib.PerSecond, sib.Min, sib.Max, sib.Sum, sib.Values))
		}
	} else if sibFound {
		bad("phantom", "a series never sent was reported")
	}
	if len(c.Values) == 0 {
		if found {
			bad("phantom", "a timer was reported although nothing was received")
		}
		return
	}
	if !found {
		bad("missing", "no timer reported")
		return
	}
	rp := ratePats[c.RatePat]
	sampled := 0.0
	for i := range c.Values {
		sampled += 1 / rp[i%len(rp)]
	}
	if c.Hist {
		want := timerref.Histogram(c.HistTag, c.HistLim, c.Values)
		got := map[float64]int{}
		for k, v := range t.Histogram {
			got[float64(k)] = v
		}
		if fmt.Sprint(got) != fmt.Sprint(want) {
			bad("histogram", fmt.Sprintf("histogram %v, want %v", got, want))
		}
		if t.Count != 0 || t.Mean != 0 || t.Sum != 0 || t.Min != 0 || t.Max != 0 || t.Median != 0 || t.StdDev != 0 || t.SumSquares != 0 || t.PerSecond != 0 || len(t.Percentiles) != 0 {
			bad("histogram-with-summary", fmt.Sprintf("histogram timer carries summary statistics: %+v", t))
		}
		distinct[fmt.Sprintf("h%v%s%d", sortedCopy(c.Values), c.HistTag, c.HistLim)] = struct{}{}
		return
	}
	_, dis := mask(c.Mask)
	pcts := c.Pcts
	if len(c.Values) == 1 { // percentile 0 with one value: not defined by the statement
		pcts = nil
		for _, p := range c.Pcts {
			if p != 0 {
				pcts = append(pcts, p)
			}
		}
	}
	w := timerref.Compute(c.Values, sampled, float64(c.Interval)/float64(time.Second), pcts, dis)
	type fld struct {
		n    string
		g, w float64
	}
	for _, f := range []fld{{"count", float64(t.Count), float64(w.Count)}, {"per_second", t.PerSecond, w.PerSecond}, {"min", t.Min, w.Min}, {"max", t.Max, w.Max}, {"sum", t.Sum, w.Sum}, {"sum_squares", t.SumSquares, w.SumSquares}, {"mean", t.Mean, w.Mean}, {"median", t.Median, w.Median}, {"stddev", t.StdDev, w.StdDev}} {
		if c.Mask >= 8 && plainField[plainStats[c.Mask-8]] == f.n {
			continue // the disabled sub-metric itself is not reported
		}
		if !timerref.Close(f.g, f.w) {
			bad("stat-"+f.n, fmt.Sprintf("%s = %v, want %v", f.n, f.g, f.w))
		}
	}
	got := map[string]float64{}
	for _, p := range t.Percentiles {
		if len(c.Values) == 1 && strings.HasSuffix(p.Str, "_0") {
			continue
		}
		if _, dup := got[p.Str]; dup {
			bad("pct-dup", "percentile "+p.Str+" reported twice")
		}
		got[p.Str] = p.Float
	}
	for k, v := range w.Pct {
		g, ok := got[k]
		if !ok {
			bad("pct-missing", fmt.Sprintf("percentile sub-metric %s missing (want %v); got %v", k, v, got))
		} else if !timerref.Close(g, v) {
			bad("pct-value", fmt.Sprintf("%s = %v, want %v", k, g, v))
		}
	}
	for k := range got {
		if _, ok := w.Pct[k]; !ok {
			bad("pct-unexpected", fmt.Sprintf("unexpected percentile sub-metric %s=%v (want %v)", k, got[k], w.Pct))
		}
	}
	distinct[fmt.Sprintf("%v%v%d/%d%v", sortedCopy(c.Values), c.Pcts, c.Mask, c.Neighbour, c.Prior)] = struct{}{}
}

func ii2(nb int) int { return nb % 2 * 2 } // intervals[2] / intervals[0]

func sortedCopy(v []float64) []float64 {
	o := append([]float64{}, v...)
	sort.Float64s(o)
	return o
}

func main() {
	res = vrt.Init()
	if *vrt.ReplayPath != "" {
		var c tcase
		vrt.LoadReplay(&c)
		check(c)
		for _, v := range res.Violations {
			fmt.Println(v.Key, "\n ", v.Msg)
		}
		if len(res.Violations) > 0 {
			fmt.Printf("VIOLATION property=C08 replay=%s\n", *vrt.ReplayPath)
			os.Exit(1)
		}
		return
	}
	maxN := 4
	if vrt.Thorough() {
		maxN = 6
	}
	res.Info["max_values"] = maxN
	vals := []float64{-2, 0, 1, 3, 10}
	var pctLists [][]float64
	pctLists = append(pctLists, nil)
	for i, p := range pctMenu {
		pctLists = append(pctLists, []float64{p})
		for _, q := range pctMenu[i+1:] {
			pctLists = append(pctLists, []float64{p, q})
		}
	}
	var i int64
	var rec func(cur []float64)
	rec = func(cur []float64) {
		i++
		if vrt.Mine(i) {
			for rpi := range ratePats {
				for g := 0; g < 3; g++ {
					for _, pl := range pctLists {
						for ii, iv := range intervals {
							for m := 0; m < 8; m++ {
								if ii != 1 && m > 1 { // masks do not interact with the interval
									continue
								}
								if g == 2 && (ii != 1 || m != 0) { // nor does the stamping of the batches
									continue
								}
								check(tcase{Values: cur, RatePat: rpi, Grouping: g, Pcts: pl, Interval: iv, Mask: m})
							}
						}
					}
				}
			}
			// one plain sub-metric disabled, with and without percentiles
			for m := 8; m < 8+len(plainStats); m++ {
				for _, pl := range [][]float64{nil, {90}} {
					check(tcase{Values: cur, RatePat: 0, Grouping: 0, Pcts: pl, Interval: time.Second, Mask: m})
				}
			}
			// (large values with a small spread are a separate family below)
			// fractional thresholds (names carry the integer part, the cut-off does not)
			for _, p := range []float64{99.9, 2.5, -99.5, 12.9, 37.6, -62.6, 87.7} {
				for rpi := range ratePats[:2] {
					check(tcase{Values: cur, RatePat: rpi, Grouping: 0, Pcts: []float64{p}, Interval: time.Second, Mask: 0})
				}
			}
			// the same series in a second interval: only this interval's values count
			if len(cur) > 0 {
				for rpi := range ratePats {
					for _, pl := range [][]float64{nil, {90}, {-50, 50}} {
						check(tcase{Values: cur, RatePat: rpi, Grouping: 0, Pcts: pl, Interval: time.Second, Mask: 0, Prior: true})
						check(tcase{Values: cur, RatePat: rpi, Grouping: 2, Pcts: pl, Interval: time.Second, Mask: 0, Prior: true})
					}
				}
				for _, lim := range []uint32{1, math.MaxUint32} {
					check(tcase{Values: cur, Hist: true, HistTag: "-10_0_2.5", HistLim: lim, Interval: time.Second, Prior: true})
				}
			}
			// two series of one name sharing the batches (either arrival order)
			for nb := 1; nb <= 2; nb++ {
				for rpi := range ratePats {
					for g := 0; g < 3; g++ {
						for _, pl := range [][]float64{nil, {90}, {-50, 50}} {
							check(tcase{Values: cur, RatePat: rpi, Grouping: g, Pcts: pl, Interval: intervals[ii2(nb)], Mask: 0, Neighbour: nb})
						}
					}
				}
			}
			// histogram family
			for _, tag := range []string{"1_5", "-10_0_2.5", "10__20", "10_bad_20", "bad", "", "5_1", "1_1", "0.5_3_+Inf", "x_y_10", "fast_medium_slow"} {
				for _, lim := range []uint32{0, 1, 2, math.MaxUint32} {
					check(tcase{Values: cur, Hist: true, HistTag: tag, HistLim: lim, Interval: time.Second, Pcts: []float64{90}})
				}
			}
		}
		if len(cur) == maxN {
			return
		}
		for _, v := range vals {
			rec(append(append([]float64{}, cur...), v))
		}
	}
	rec(nil)
	// values that are large compared with their spread (epoch milliseconds, byte counts): the statistics, the
	// standard deviation in particular, must be those of the values, not of their rounding errors
	big := []float64{1e9, 1e9 + 1, 1e9 + 3, 1.7e12, 1.7e12 + 250}
	var recBig func(cur []float64)
	recBig = func(cur []float64) {
		if len(cur) >= 2 {
			i++
			if vrt.Mine(i) {
				check(tcase{Values: cur, RatePat: 0, Grouping: 0, Pcts: []float64{50}, Interval: time.Second, Mask: 0})
			}
		}
		if len(cur) == 3 {
			return
		}
		for _, v := range big {
			recBig(append(append([]float64{}, cur...), v))
		}
	}
	recBig(nil)
	res.Sample(tcase{Values: []float64{10, -2, 1, 1}, RatePat: 2, Pcts: []float64{-90, 50}, Interval: time.Second, Mask: 3})
	res.Sample(tcase{Values: []float64{3, 0}, Hist: true, HistTag: "-10_0_2.5", HistLim: 2, Interval: time.Second})
	res.SetDistinctKeys(distinct)
	res.States = int64(len(distinct))
	res.Transitions = res.Evaluations
	res.Traces = res.Evaluations
	res.Finish()
}
