// C18: aligned flushing happens exactly on interval boundaries.
package main

import (
	"context"
	"errors"
	"fmt"
	"github.com/atlassian/gostatsd/pkg/stats"
	"math/big"
	"os"
	"strings"
	"time"

	"github.com/tilinna/clock"

	"github.com/atlassian/gostatsd"
	"github.com/atlassian/gostatsd/internal/verif/vrt"
	"github.com/atlassian/gostatsd/internal/verif/vsched"
	"github.com/atlassian/gostatsd/internal/verif/vtime"
	"github.com/atlassian/gostatsd/pkg/statsd"
)

type cfg struct {
	Interval, Offset time.Duration
	Start            int64 // unix nanoseconds
	Advances         int
	Slow             bool
	Busy             bool // the flush itself consumes clock time (a fraction of / several intervals)
	Subscriber       bool `json:",omitempty"` // a flush subscriber (what a backend's Run loop, the parser, a receiver are) registers and leaves again at any point
	Failing          int  `json:",omitempty"` // one backend whose sends fail: 1 the first flush only, 2 every second flush, 3 every flush
}

func (c cfg) String() string {
	if c.Busy {
		return fmt.Sprintf("i%v-o%v-s%d-a%d-busy", c.Interval, c.Offset, c.Start, c.Advances)
	}
	if c.Failing != 0 {
		return fmt.Sprintf("i%v-o%v-s%d-a%d-failing%d", c.Interval, c.Offset, c.Start, c.Advances, c.Failing)
	}
	if c.Subscriber {
		return fmt.Sprintf("i%v-o%v-s%d-a%d-subscriber", c.Interval, c.Offset, c.Start, c.Advances)
	}
	return fmt.Sprintf("i%v-o%v-s%d-a%d-slow%v", c.Interval, c.Offset, c.Start, c.Advances, c.Slow)
}

type flushRec struct {
	At       time.Time     // mock time when the flush ran
	Interval time.Duration // interval handed to the aggregator
}

// recording AggregateProcesser with one aggregator
type proc struct {
	r    *run
	busy []time.Duration
	gate chan struct{}
}

type aggr struct{ r *run }

func (a aggr) ReceiveMap(*gostatsd.MetricMap) {}
func (a aggr) Flush(d time.Duration) {
	a.r.flushes = append(a.r.flushes, flushRec{At: a.r.mock.Now(), Interval: d})
}
func (a aggr) Process(f statsd.ProcessFunc) { f(gostatsd.NewMetricMap(false)) }
func (a aggr) Reset()                       {}

func (p *proc) Process(ctx context.Context, f statsd.DispatcherProcessFunc) gostatsd.Wait {
	if p.gate != nil {
		vsched.Recv(p.gate) // slow consumer: waits until the harness lets it through
	}
	f(0, aggr{p.r})
	if p.busy != nil && len(p.r.flushes) <= 2 { // only the first two flushes are slow, or time would never stand still
		vtime.Advance(p.r.mock, p.busy[vsched.Choose(len(p.busy), "flush-takes")])
	}
	return func() {}
}

// recClock remembers the first clock reading of the flusher thread (MetricFlusher.Run's lastFlush).
type recClock struct {
	clock.Clock
	r *run
}

func (c recClock) Now() time.Time {
	t := c.Clock.Now()
	if vsched.SelfName() == "flusher" && c.r.lastFlush.IsZero() {
		c.r.lastFlush = t
	}
	if vsched.SelfName() == "" && c.r.tickerStart.IsZero() {
		c.r.tickerStart = t // the aligned ticker's goroutine reads the clock once, at its start-up
	}
	return t
}

func (c recClock) NewTimer(d time.Duration) *clock.Timer {
	t := c.Clock.NewTimer(d)
	if vsched.SelfName() == "" && c.r.armedAt.IsZero() {
		c.r.armedAt = c.r.mock.Now() // the ticker is up once its first timer is armed
	}
	return t
}

type run struct {
	mock        *clock.Mock
	lastFlush   time.Time
	tickerStart time.Time
	armedAt     time.Time
	start       time.Time
	flushes     []flushRec
	ticks       []time.Time
}

// failingBackend: a backend whose flush requests are completed with an error according to a pattern
type failingBackend struct {
	r       *run
	pattern int
	n       int
}

func (b *failingBackend) Name() string                                     { return "failing" }
func (b *failingBackend) SendEvent(context.Context, *gostatsd.Event) error { return nil }
func (b *failingBackend) SendMetricsAsync(ctx context.Context, mm *gostatsd.MetricMap, cb gostatsd.SendCallback) {
	b.n++
	if b.pattern == 3 || (b.pattern == 1 && b.n == 1) || (b.pattern == 2 && b.n%2 == 1) {
		cb([]error{errors.New("connection refused")})
		return
	}
	cb(nil)
}

func body(c cfg, r *run) func(*vsched.Exec) {
	return func(x *vsched.Exec) {
		*r = run{}
		r.start = time.Unix(0, c.Start)
		r.mock = clock.NewMock(r.start)
		w := recClock{vtime.Wrap(r.mock), r}
		vsched.EnvSet("clock", clock.Clock(w))
		ctx := clock.Context(context.Background(), clock.Clock(w))
		p := &proc{r: r}
		if c.Slow {
			p.gate = make(chan struct{}, 8)
		}
		if c.Busy {
			p.busy = []time.Duration{c.Interval / 4, 5 * c.Interval / 2}
		}
		var backends []gostatsd.Backend
		if c.Failing != 0 {
			backends = []gostatsd.Backend{&failingBackend{r: r, pattern: c.Failing}}
		}
		if c.Subscriber {
			st := stats.NewNullStatser()
			ctx = stats.NewContext(ctx, st)
			vsched.GoNamed("subscriber", func() {
				ch, leave := st.RegisterFlush()
				if vsched.Select(true, vsched.CaseRecv(ch)) == 0 {
					vsched.SelRecv(ch)
				}
				leave()
			})
		}
		fl := statsd.NewMetricFlusher(c.Interval, c.Offset, true, p, backends)
		vsched.GoNamed("flusher", func() { fl.Run(ctx) })
		menu := []time.Duration{c.Interval / 2, c.Interval - 1, c.Interval + 1, 3 * c.Interval, 1, c.Interval}
		if !vrt.Thorough() {
			menu = menu[:5]
		}
		for i := 0; i < c.Advances; i++ {
			d := menu[vsched.Choose(len(menu), "advance")]
			vtime.Advance(r.mock, d)
			if c.Slow && vsched.Choose(2, "release") == 1 {
				vsched.Send(p.gate, struct{}{})
			}
		}
		vsched.Quiesce("settle")
		if c.Slow {
			for i := 0; i < 4; i++ {
				vsched.Send(p.gate, struct{}{})
			}
			vsched.Quiesce("drain")
		}
	}
}

func check(c cfg, r *run, outcomes map[string]struct{}) func(*vsched.Exec, vsched.Outcome) (string, string) {
	return func(x *vsched.Exec, o vsched.Outcome) (string, string) {
		if o.Kind != "ok" {
			return o.Kind, o.Kind + ": " + o.Detail
		}
		// reconstruct the tick of every flush: first tick = start + first interval handed over is not
		// observable directly, so the flusher's delta chain is used: tick_k = lastFlush_0 + sum(deltas)
		t := r.lastFlush // MetricFlusher.Run reads lastFlush := now at start-up (recorded by recClock)
		var sig strings.Builder
		var prev time.Time
		for k, f := range r.flushes {
			t = t.Add(f.Interval)
			// t is the tick that triggered flush k
			// absolute nanoseconds since Go's zero time (the epoch time.Truncate is documented to use)
			abs := new(big.Int).Mul(big.NewInt(t.Unix()+62135596800), big.NewInt(1e9))
			abs.Add(abs, big.NewInt(int64(t.Nanosecond())))
			abs.Sub(abs, big.NewInt(int64(c.Offset)))
			if rem := new(big.Int).Mod(abs, big.NewInt(int64(c.Interval))); rem.Sign() != 0 {
				return "unaligned", fmt.Sprintf("flush %d triggered at %v: (t - offset) is not a multiple of %v (remainder %vns)", k, t.UnixNano(), c.Interval, rem)
			}
			if k > 0 {
				if !t.After(prev) {
					return "not-increasing", fmt.Sprintf("flush %d at %v does not follow flush %d at %v", k, t.UnixNano(), k-1, prev.UnixNano())
				}
				if f.Interval <= 0 || f.Interval%c.Interval != 0 {
					return "bad-elapsed", fmt.Sprintf("flush %d reports elapsed %v, not a positive multiple of %v", k, f.Interval, c.Interval)
				}
			} else {
				// start-up = the ticker goroutine has read the clock and armed its first timer; an arbitrarily
				// long preemption between those two statements is not something the property can bound
				// a flush cannot be triggered at an instant before the ticker existed: the first boundary at or after
				// the clock reading the ticker took at its start-up is the earliest one it can announce
				if !r.tickerStart.IsZero() && t.Before(r.tickerStart) {
					return "tick-before-start", fmt.Sprintf("first flush carries tick %v, which is before the ticker's start-up at %v (timer armed at %v, interval %v): the timer fired before the boundary and was labelled with the previous one", t.UnixNano(), r.tickerStart.UnixNano(), r.armedAt.UnixNano(), c.Interval)
				}
				if t.Sub(r.armedAt) > c.Interval || r.tickerStart.Sub(t) >= c.Interval {
					return "first-tick-late", fmt.Sprintf("first flush tick %v; ticker read the clock at %v and armed its timer at %v (interval %v)", t.UnixNano(), r.tickerStart.UnixNano(), r.armedAt.UnixNano(), c.Interval)
				}
			}
			if t.After(f.At) {
				return "tick-in-future", fmt.Sprintf("flush %d carries tick %v but ran at clock %v", k, t.UnixNano(), f.At.UnixNano())
			}
			prev = t
			fmt.Fprintf(&sig, "%d,", t.Sub(r.start))
		}
		if len(r.flushes) > 0 {
			outcomes[c.String()+sig.String()] = struct{}{}
			x.Note("flushed")
		}
		if len(r.flushes) > 1 {
			x.Note("two-or-more-flushes")
		}
		return "", ""
	}
}

type replay struct {
	Cfg     cfg
	Choices []vsched.TransKey
}

func configs() []cfg {
	var cs []cfg
	adv := 2
	if vrt.Thorough() {
		adv = 3
	}
	ivs := []time.Duration{time.Second, 10 * time.Second, 7 * time.Second, 1500 * time.Millisecond}
	starts := []int64{1_700_000_000_000_000_000, 1_700_000_000_000_000_001, 1_699_999_999_999_999_999, 1_700_000_000_400_000_000, 0, 2_147_483_648_000_000_000}
	if !vrt.Thorough() {
		ivs = []time.Duration{time.Second, 7 * time.Second, 1500 * time.Millisecond}
		starts = starts[:5]
	}
	for _, iv := range ivs {
		offs := []time.Duration{0, 3 * time.Second, iv - 1, iv, iv + 2*time.Second, -300 * time.Millisecond, -iv - 300*time.Millisecond, -iv / 2}
		if !vrt.Thorough() {
			offs = []time.Duration{0, iv - 1, iv + 2*time.Second, -300 * time.Millisecond, -iv - 300*time.Millisecond}
		}
		for _, off := range offs {
			for _, st := range starts {
				for _, slow := range []bool{false, true} {
					if slow && !(off == 0 && st%2 == 0) {
						continue
					}
					cs = append(cs, cfg{Interval: iv, Offset: off, Start: st, Advances: adv, Slow: slow})
				}
				if (st == starts[0] || (vrt.Thorough() && st%2 == 0)) && (off == 0 || off == iv-1) {
					cs = append(cs, cfg{Interval: iv, Offset: off, Start: st, Advances: adv - 1, Busy: true})
				}
				// a backend that fails (the first flush / every second flush / always): the time reported to the
				// aggregators must still be what has passed between the flushes
				if st == starts[3] && off == 0 {
					cs = append(cs, cfg{Interval: iv, Offset: off, Start: st, Advances: adv, Subscriber: true})
					for f := 1; f <= 3; f++ {
						cs = append(cs, cfg{Interval: iv, Offset: off, Start: st, Advances: adv, Failing: f})
					}
				}
			}
		}
	}
	return cs
}

func main() {
	res := vrt.Init()
	if *vrt.ReplayPath != "" {
		var rp replay
		vrt.LoadReplay(&rp)
		r := &run{}
		o, key, msg, trace := vsched.Replay(vsched.Config{Body: body(rp.Cfg, r), Check: check(rp.Cfg, r, map[string]struct{}{})}, rp.Choices)
		fmt.Println(strings.Join(trace, "\n"))
		fmt.Printf("outcome=%s key=%s\n%s\n", o.Kind, key, msg)
		if msg != "" {
			fmt.Printf("VIOLATION property=C18 replay=%s\n", *vrt.ReplayPath)
			os.Exit(1)
		}
		return
	}
	outcomes := map[string]struct{}{}
	for i, c := range configs() {
		if vrt.Expired() {
			res.Exhaustive = false
			break
		}
		r := &run{}
		st := vsched.Explore(vsched.Config{Name: c.String(), Deadline: vrt.Deadline(), Shard: *vrt.Shard, NShards: *vrt.NShards, SplitLvl: 3, StatesOut: fmt.Sprintf("states_%d_%d.bin", i, *vrt.Shard), Body: body(c, r), Check: check(c, r, outcomes)})
		res.Evaluations += st.Executions
		res.Traces += st.Executions
		res.Transitions += st.Transitions
		res.States += st.States
		res.Counters["state_keys_seen_beyond_the_kept_set"] += st.StatesBeyondCap
		res.Counters["sleep_blocked"] += st.SleepBlocked
		for k, v := range st.Notes {
			res.Counters["note."+k] += v
		}
		if !st.Exhaustive {
			res.Exhaustive = false
		}
		for _, v := range st.Violations {
			res.Violate(v.Key+" "+c.String(), v.Msg+"\ntrace:\n"+strings.Join(v.Trace, "\n"), replay{c, v.Choices})
		}
		if i%40 == 0 {
			for _, t := range st.SampleTraces {
				res.Sample(map[string]any{"config": c.String(), "schedule": t})
			}
		}
	}
	res.Info["configs"] = len(configs())
	res.SetDistinctKeys(outcomes)
	res.Finish()
}
