// C02: the line parser accepts exactly the documented grammar. Exhaustive enumeration against lineref.
package main

import (
	"fmt"
	"math"
	"os"
	"strings"

	"github.com/atlassian/gostatsd"
	"github.com/atlassian/gostatsd/internal/lexer"
	"github.com/atlassian/gostatsd/internal/pool"
	"github.com/atlassian/gostatsd/internal/verif/ref/lineref"
	"github.com/atlassian/gostatsd/internal/verif/vrt"
)

var res *vrt.Result
var lx = &lexer.Lexer{MetricPool: pool.NewMetricPool(0)}
var accepted int64

func typeName(t gostatsd.MetricType) string {
	switch t {
	case gostatsd.COUNTER:
		return "c"
	case gostatsd.GAUGE:
		return "g"
	case gostatsd.TIMER:
		return "ms"
	case gostatsd.SET:
		return "s"
	}
	return "?"
}

func sameF(a, b float64) bool {
	return a == b && math.Signbit(a) == math.Signbit(b)
}

func tagsEq(a gostatsd.Tags, b []string) bool {
	if len(a) != len(b) {
		return false
	}
	for i := range a {
		if a[i] != b[i] {
			return false
		}
	}
	return true
}

// keyOf classifies a failing line for de-duplication of reports: the shape with letters/digits collapsed.
func shape(line string) string {
	var b strings.Builder
	for i := 0; i < len(line) && i < 40; i++ {
		c := line[i]
		switch {
		case c >= '0' && c <= '9':
			b.WriteByte('9')
		default:
			b.WriteByte(c)
		}
	}
	return b.String()
}

func checkLine(line, ns string) {
	res.Evaluations++
	buf := []byte(line) // the lexer edits its input
	m, e, err := lx.Run(buf, ns)
	implAccept := err == nil
	bad := func(kind, msg string) {
		res.Violate(kind+" "+shape(line), fmt.Sprintf("%s: line %q ns=%q: %s", kind, line, ns, msg), map[string]string{"line": line, "ns": ns})
	}
	// implications that hold for every line
	if implAccept && m != nil {
		if m.Name == "" {
			bad("accepted-empty-name", "accepted with an empty name")
		}
		if m.Type != gostatsd.SET && math.IsNaN(m.Value) {
			bad("accepted-nan", "accepted with NaN value")
		}
		if math.IsNaN(m.Rate) || math.IsInf(m.Rate, 0) || m.Rate <= 0 {
			bad("accepted-bad-rate", fmt.Sprintf("accepted with sample rate %v", m.Rate))
		}
		for _, t := range m.Tags {
			if t == "" || strings.ContainsAny(t, ",|") {
				bad("accepted-bad-tag", fmt.Sprintf("accepted with tag %q", t))
			}
		}
	}
	if implAccept && e != nil {
		for _, t := range e.Tags {
			if t == "" || strings.ContainsAny(t, ",|") {
				bad("accepted-bad-tag", fmt.Sprintf("event accepted with tag %q", t))
			}
		}
	}
	if strings.IndexByte(line, 0) < 0 {
		if rej, why := lineref.MustReject(line); rej && implAccept {
			bad("must-reject", "accepted although: "+why)
		}
	}
	if strings.HasPrefix(line, "_e{") {
		v, re := lineref.ParseEvent(line)
		switch v {
		case lineref.Reject:
			if implAccept {
				bad("event-should-reject", "event accepted, reference rejects")
			}
		case lineref.Accept:
			accepted++
			if !implAccept || e == nil {
				bad("event-should-accept", fmt.Sprintf("documented event rejected: %v", err))
			} else {
				pri := "normal"
				if e.Priority == gostatsd.PriLow {
					pri = "low"
				}
				if e.Title != re.Title || e.Text != re.Text || string(e.Source) != re.Host || e.AggregationKey != re.Key || e.SourceTypeName != re.SourceType || e.DateHappened != re.Date || pri != re.Priority || e.AlertType.String() != re.Alert || !tagsEq(e.Tags, re.Tags) {
					bad("event-fields", fmt.Sprintf("got %+v want %+v", *e, *re))
				}
			}
		}
	} else {
		v, rm := lineref.ParseMetric(line, ns)
		switch v {
		case lineref.Reject:
			if implAccept {
				bad("should-reject", fmt.Sprintf("accepted (%v), reference rejects", m))
			}
		case lineref.Accept:
			accepted++
			if !implAccept || m == nil {
				bad("should-accept", fmt.Sprintf("documented line rejected: %v", err))
			} else {
				ok := m.Name == rm.Name && typeName(m.Type) == rm.Type && sameF(m.Rate, rm.Rate) && tagsEq(m.Tags, rm.Tags)
				if rm.Type == "s" {
					ok = ok && m.StringValue == rm.Str
				} else {
					ok = ok && sameF(m.Value, rm.Value)
				}
				if !ok {
					bad("fields", fmt.Sprintf("got {name=%q type=%s value=%v str=%q rate=%v tags=%q} want %+v", m.Name, typeName(m.Type), m.Value, m.StringValue, m.Rate, []string(m.Tags), *rm))
				}
				// the shared lexer hands out recycled metrics whose tag buffers have grown; a parser that has just
				// started (or whose pool was drained) starts from the configured estimate: same line, fresh lexer
				if ok && strings.Contains(line, "|#") {
					for _, est := range []int{0, 1, 3} {
						fl := &lexer.Lexer{MetricPool: pool.NewMetricPool(est)}
						fm, _, ferr := fl.Run([]byte(line), ns)
						if ferr != nil || fm == nil {
							bad("fields-fresh-lexer", fmt.Sprintf("a fresh lexer (estimated tags %d) rejects the line the shared lexer accepts: %v", est, ferr))
							break
						}
						if !(fm.Name == rm.Name && typeName(fm.Type) == rm.Type && sameF(fm.Rate, rm.Rate) && tagsEq(fm.Tags, rm.Tags)) {
							bad("fields-fresh-lexer", fmt.Sprintf("a fresh lexer (estimated tags %d) got {name=%q type=%s rate=%v tags=%q} want %+v", est, fm.Name, typeName(fm.Type), fm.Rate, []string(fm.Tags), *rm))
							break
						}
					}
				}
			}
		default:
			if implAccept {
				accepted++
			}
			// a line the reference leaves open (e.g. a repeated field): what it parses to must still not depend on
			// the history of the lexer's recycled buffers - a fresh lexer reads the same fields
			if implAccept && m != nil && strings.Contains(line, "|#") {
				for _, est := range []int{0, 1, 3} {
					fl := &lexer.Lexer{MetricPool: pool.NewMetricPool(est)}
					fm, _, ferr := fl.Run([]byte(line), ns)
					if ferr != nil || fm == nil {
						bad("fresh-lexer-differs", fmt.Sprintf("a fresh lexer (estimated tags %d) rejects the line the shared lexer accepts: %v", est, ferr))
						break
					}
					if !(fm.Name == m.Name && fm.Type == m.Type && sameF(fm.Rate, m.Rate) && tagsEq(fm.Tags, m.Tags) && fm.StringValue == m.StringValue && (sameF(fm.Value, m.Value) || m.Type == gostatsd.SET)) {
						bad("fresh-lexer-differs", fmt.Sprintf("a fresh lexer (estimated tags %d) got {name=%q type=%s value=%v rate=%v tags=%q}, the long-running one {name=%q type=%s value=%v rate=%v tags=%q}", est, fm.Name, typeName(fm.Type), fm.Value, fm.Rate, []string(fm.Tags), m.Name, typeName(m.Type), m.Value, m.Rate, []string(m.Tags)))
						break
					}
				}
			}
		}
	}
	if m != nil {
		m.Done()
	}
}

var names = []string{"a", "a.b-c_d", "a/b", "a b", "a\tb", "a$b", "$a", "$", "9z", "A.Z", "caf\xc3\xa9.x", "\xe9", "a\xaa\xb5\xc0\xffz"}
var values = []string{"1", "0", "-1", "+1", "1.5", ".5", "1e3", "1E-2", "0x1p-2", "inf", "-Inf", "1_0", "0x10", "nan", "NaN", "", "1..2", "1e", "abc", "--1", "1 ", "a:b", "::1"}
var types = []string{"c", "g", "ms", "h", "s", "", "m", "mx", "x", "cc", "C", "msx", "hx", "hms", "sx", "gg"}
var fields = []string{"@0.5", "@1", "@2", "@0", "@-1", "@nan", "@inf", "@", "@x", "#a", "#a,b:c", "#,a,,", "#", "c:xyz", "T1", ""}

var titles = []string{"", "t", "a|b", "x\\ny"}
var texts = []string{"", "x", "p|q", "l1\\nl2", "a\\nb\\nc", "\\nhead", "\\n"}
var eattrs = []string{"d:12", "d:", "d:9223372036854775808", "d:21000000000000000000", "", "h:host", "k:key", "p:low", "p:normal", "p:bad", "s:src", "t:error", "t:warning", "t:success", "t:info", "t:bad", "#t1,t2:v", "#", "x:unk"}

func seqs(menu []string, maxLen int, f func([]string)) {
	var rec func(cur []string)
	rec = func(cur []string) {
		f(cur)
		if len(cur) == maxLen {
			return
		}
		for _, m := range menu {
			rec(append(cur, m))
		}
	}
	rec(nil)
}

func structured() {
	maxF := 3
	if vrt.Thorough() {
		maxF = 4
	}
	var i int64
	for _, ns := range []string{"", "ns"} {
		for _, n := range names {
			for _, v := range values {
				for _, t := range types {
					i++
					if !vrt.Mine(i) {
						continue
					}
					seqs(fields, maxF, func(fs []string) {
						line := n + ":" + v + "|" + t
						if len(fs) > 0 {
							line += "|" + strings.Join(fs, "|")
						}
						checkLine(line, ns)
					})
				}
			}
		}
	}
	// events
	maxA := 3
	if vrt.Thorough() {
		maxA = 4
	}
	for _, ti := range titles {
		for _, tx := range texts {
			for _, dn := range []int{-1, 0, 1} {
				for _, dm := range []int{-1, 0, 1} {
					i++
					if !vrt.Mine(i) {
						continue
					}
					n, m := len(ti)+dn, len(tx)+dm
					if n < 0 || m < 0 {
						continue
					}
					seqs(eattrs, maxA, func(as []string) {
						line := fmt.Sprintf("_e{%d,%d}:%s|%s", n, m, ti, tx)
						if len(as) > 0 {
							line += "|" + strings.Join(as, "|")
						}
						checkLine(line, "")
					})
				}
			}
		}
	}
	for _, l := range []string{"_e{1,1}:a|b", "_e{4294967296,1}:a|b", "_e{1,4294967296}:a|b", "_e{01,1}:a|b", "_e{1,1}:a|b|", "_e{1,1}:a|bc", "_e{1,1}a|b", "_e{1,1:a|b", "_e1,1}:a|b", "_e{,1}:a|b", "_e{1}:a|b", "_x{1,1}:a|b", "_e{2,1}:a||b"} {
		i++
		if vrt.Mine(i) {
			checkLine(l, "")
		}
	}
}

func sigma(maxLen int) {
	alpha := []byte("a:|1.-cmsh@#,_e ")
	buf := make([]byte, 0, maxLen)
	var i int64
	var rec func()
	rec = func() {
		if vrt.Stop() {
			return
		}
		checkLine(string(buf), "")
		if len(buf) == maxLen {
			return
		}
		for _, c := range alpha {
			buf = append(buf, c)
			rec()
			buf = buf[:len(buf)-1]
		}
	}
	// shard on the first two symbols
	for _, c1 := range alpha {
		for _, c2 := range alpha {
			i++
			if !vrt.Mine(i) {
				continue
			}
			buf = append(buf[:0], c1, c2)
			rec()
		}
	}
	if *vrt.Shard == 0 {
		checkLine("", "")
		for _, c := range alpha {
			checkLine(string([]byte{c}), "")
		}
	}
}

func main() {
	res = vrt.Init()
	if *vrt.ReplayPath != "" {
		var rp map[string]string
		vrt.LoadReplay(&rp)
		checkLine(rp["line"], rp["ns"])
		for _, v := range res.Violations {
			fmt.Println(v.Key, "\n ", v.Msg)
		}
		if len(res.Violations) > 0 {
			fmt.Printf("VIOLATION property=C02 replay=%s\n", *vrt.ReplayPath)
			os.Exit(1)
		}
		fmt.Println("no violation")
		return
	}
	switch *vrt.Sub {
	case "structured":
		structured()
		res.Sample(map[string]string{"family": "structured", "line": "a/b:1e3|ms|@0.5|#a,b:c|c:xyz", "ns": "ns"})
		res.Sample(map[string]string{"family": "structured", "line": "_e{4,6}:x\\ny|l1\\nl2|p:low|#t1,t2:v"})
	case "sigma":
		L := 6
		if vrt.Thorough() {
			L = 7
		}
		sigma(L)
		res.Info["max_len"] = L
		res.Sample(map[string]string{"family": "sigma", "line": "a:1|c|@"})
	}
	res.DistinctNontrivial = accepted
	res.States = res.Evaluations
	res.Transitions = res.Evaluations
	res.Traces = res.Evaluations
	res.Finish()
}
