// C20: the Lambda extension asks for the next invocation only after flushing.
package main

import (
	"bytes"
	"context"
	"errors"
	"fmt"
	"io"
	"net/http"
	"net/http/httptest"
	"os"
	"sort"
	"strings"
	"time"

	"github.com/cenkalti/backoff"
	"github.com/spf13/viper"
	"github.com/tilinna/clock"
	"google.golang.org/protobuf/proto"

	"github.com/atlassian/gostatsd"
	"github.com/atlassian/gostatsd/internal/awslambda/extension"
	"github.com/atlassian/gostatsd/internal/flush"
	"github.com/atlassian/gostatsd/internal/verif/lib/fx"
	"github.com/atlassian/gostatsd/internal/verif/vrt"
	"github.com/atlassian/gostatsd/internal/verif/vsched"
	"github.com/atlassian/gostatsd/internal/verif/vtime"
	"github.com/atlassian/gostatsd/pb"
	"github.com/atlassian/gostatsd/pkg/statsd"
	"github.com/atlassian/gostatsd/pkg/transport"
)

type cfg struct {
	Invocations int
	Batches     []int // datapoint batches injected per invocation
	Failures    int
	Elapsed     time.Duration
	ExtraTelem  bool // telemetry batch carries other records around runtimeDone, and one batch without it
	InitFail    bool // start-up path: server.Run fails
	// InitErr: what the failing server returns: 0 a plain error, 1 an error wrapping context.DeadlineExceeded, 2 one wrapping
	// context.Canceled (a start-up step of the server with a deadline of its own; the manager's context is alive)
	InitErr int `json:",omitempty"`
	TelemFail   bool // start-up path: the server is healthy but the telemetry listener cannot be bound
	Wired       bool // the forwarder is built the way the lambda-extension command builds it (NewServer from a configuration that also lists a dynamic header, then the server's own constructor); the datapoints of one invocation carry two values of that tag
	BadSet      bool // the function also sends a set member that is not valid UTF-8 (a binary id) in every batch
	SlowSub     bool // with InitFail: per-invocation flushing enabled and the telemetry subscription takes >= 100 ms
}

func (c cfg) String() string {
	if c.TelemFail {
		return "telemetry-listener-fails"
	}
	return fmt.Sprintf("N%d-b%v-f%d-el%v-x%v-init%v-slowsub%v", c.Invocations, c.Batches, c.Failures, c.Elapsed, c.ExtraTelem, c.InitFail, c.SlowSub) + map[bool]string{true: "-badset"}[c.BadSet] + map[bool]string{true: "-wired"}[c.Wired] + map[int]string{1: "-errdeadline", 2: "-errcanceled"}[c.InitErr]
}

type run struct {
	c         cfg
	log       []string
	obj       *int
	fwd       *statsd.HttpForwarderHandlerV2
	injected  []string        // datapoint names in injection order
	delivered map[string]bool // datapoint reached the upstream in a successful attempt
	attempted map[string]int  // attempts whose body contained the datapoint
	failsLeft int
	nextReqs  int
	flushes   int
	initErrs  int
	exitErrs  int
	viol      string
	violKey   string
	nextCh    chan string
	subGate   chan struct{}
	mock      *clock.Mock
}

func (r *run) fail(k, m string) {
	if r.viol == "" {
		r.violKey, r.viol = k, m
	}
}

func (r *run) event(s string) {
	vsched.Access(r.obj, true, s)
	r.log = append(r.log, s)
}

// recording flush coordinator around the real one
type coord struct {
	flush.Coordinator
	r *run
}

func (c coord) Flush() {
	c.r.event(fmt.Sprintf("flush-begin#%d", c.r.flushes))
	c.r.flushes++
	c.Coordinator.Flush()
}

// fake Lambda runtime API
type runtimeAPI struct{ r *run }

func jsonResp(req *http.Request, code int, body string, hdr map[string]string) *http.Response {
	h := http.Header{}
	for k, v := range hdr {
		h.Set(k, v)
	}
	return &http.Response{StatusCode: code, Status: fmt.Sprint(code), Header: h, Body: io.NopCloser(strings.NewReader(body)), Request: req}
}

func (a runtimeAPI) RoundTrip(req *http.Request) (*http.Response, error) {
	if req.Body != nil {
		io.Copy(io.Discard, req.Body)
		req.Body.Close()
	}
	r := a.r
	switch {
	case strings.HasSuffix(req.URL.Path, "/extension/register"):
		return jsonResp(req, 200, `{"functionName":"f","functionVersion":"1","handler":"h"}`, map[string]string{"Lambda-Extension-Identifier": "id-1"}), nil
	case strings.HasSuffix(req.URL.Path, "/extension/event/next"):
		r.nextReqs++
		r.event(fmt.Sprintf("next-requested#%d", r.nextReqs))
		r.checkSettled(fmt.Sprintf("next request %d", r.nextReqs))
		if r.nextReqs == 1 && r.flushes == 0 {
			r.fail("no-initial-flush", "the first next-event request was made before any flush")
		}
		ev := vsched.Recv(r.nextCh)
		if ev == "SHUTDOWN" {
			return jsonResp(req, 200, `{"eventType":"SHUTDOWN","shutdownReason":"spindown"}`, nil), nil
		}
		return jsonResp(req, 200, `{"eventType":"INVOKE","requestId":"`+ev+`"}`, nil), nil
	case strings.HasSuffix(req.URL.Path, "/telemetry"):
		r.event("telemetry-subscribe")
		if r.subGate != nil {
			// the subscription round trip is slow; like a real transport it is abandoned when its request's context ends
			if vsched.Select(false, vsched.CaseRecv(r.subGate), vsched.CaseRecv(req.Context().Done())) == 1 {
				vsched.SelRecv2(req.Context().Done())
				r.event("telemetry-subscribe-abandoned")
				return nil, req.Context().Err()
			}
			vsched.SelRecv(r.subGate)
		}
		return jsonResp(req, 200, `"OK"`, nil), nil
	case strings.HasSuffix(req.URL.Path, "/extension/init/error"):
		r.initErrs++
		r.event("init-error-reported")
		return jsonResp(req, 202, `{}`, nil), nil
	case strings.HasSuffix(req.URL.Path, "/extension/exit/error"):
		r.exitErrs++
		r.event("exit-error-reported")
		return jsonResp(req, 202, `{}`, nil), nil
	}
	return jsonResp(req, 404, `{}`, nil), nil
}

// checkSettled: everything injected so far has reached the upstream or has been refused by it for
// good (its body's delivery attempt is over).
func (r *run) checkSettled(when string) {
	cn := r.fwd.VerifCounters()
	inflight := cn[1] != cn[2]+cn[4]
	for _, n := range r.injected {
		if r.delivered[n] {
			continue
		}
		if r.attempted[n] == 0 {
			r.fail("next-before-flush-delivered", fmt.Sprintf("%s: datapoint %s was accepted before the runtime-done signal but no delivery attempt for it has been made yet; log %v", when, n, r.log))
		} else if inflight {
			r.fail("next-while-delivery-in-flight", fmt.Sprintf("%s: datapoint %s is still being retried (created=%d sent=%d dropped=%d); log %v", when, n, cn[1], cn[2], cn[4], r.log))
		}
	}
}

type upstream struct{ r *run }

func (u upstream) RoundTrip(req *http.Request) (*http.Response, error) {
	if err := req.Context().Err(); err != nil {
		return nil, err // a real transport does not send a request whose context is already done
	}
	raw, _ := io.ReadAll(req.Body)
	req.Body.Close()
	var msg pb.RawMessageV2
	proto.Unmarshal(raw, &msg)
	var names []string
	for n := range msg.Counters {
		names = append(names, n)
	}
	sort.Strings(names)
	r := u.r
	ok := true
	if len(names) > 0 && r.failsLeft > 0 && vsched.Choose(2, "upstream") == 1 {
		r.failsLeft--
		ok = false
	}
	r.event(fmt.Sprintf("upstream-attempt%v-ok=%v", names, ok))
	for _, n := range names {
		r.attempted[n]++
		if ok {
			r.delivered[n] = true
		}
	}
	if !ok {
		return jsonResp(req, 503, "busy", nil), nil
	}
	return jsonResp(req, 202, "", nil), nil
}

// healthyServer runs until it is told to stop
type healthyServer struct{}

func (healthyServer) Run(ctx context.Context) error {
	vsched.Recv(ctx.Done())
	return ctx.Err()
}

type failingServer struct{ err error }

func (s failingServer) Run(ctx context.Context) error { return s.err }

type fwdServer struct {
	h *statsd.HttpForwarderHandlerV2
}

func (s fwdServer) Run(ctx context.Context) error { s.h.Run(ctx); return ctx.Err() }

func body(c cfg, r *run) func(*vsched.Exec) {
	return func(x *vsched.Exec) {
		*r = run{c: c, obj: new(int), delivered: map[string]bool{}, attempted: map[string]int{}, failsLeft: c.Failures, nextCh: make(chan string)}
		ctx, mock := fx.NewClock(context.Background())
		r.mock = mock
		w := vsched.EnvGet("clock").(clock.Clock)
		clock.VerifDefault = w
		backoff.VerifNow = func() time.Time { return w.Now() }
		if c.TelemFail {
			// the statsd server is fine, but the telemetry listener's address (sandbox.invalid:8083) cannot be
			// bound: that is a start-up failure of the extension - it must be reported to init/error, the manager
			// must return it, and no invocation may be requested
			r.subGate = make(chan struct{}, 1)
			r.subGate <- struct{}{}
			m := extension.VerifNew("lambda.invalid", runtimeAPI{r}, fx.Quiet(), healthyServer{}, flush.NewFlushCoordinator(), true)
			var err error
			done := false
			vsched.GoNamed("manager.Run", func() { err = m.Run(ctx); done = true })
			vsched.Quiesce("starting")
			vtime.Advance(mock, 100*time.Millisecond)
			vsched.Quiesce("grace-over")
			if !done {
				r.fail("manager-did-not-return", fmt.Sprintf("manager.Run is still running although the telemetry listener could not be started; log %v", r.log))
			} else if err == nil {
				r.fail("start-up-error-swallowed", "manager.Run returned nil although the telemetry listener could not be started")
			}
			return
		}
		if c.InitFail && c.SlowSub {
			// per-invocation flushing: the manager also subscribes to the telemetry API during start-up. The
			// listener address cannot be bound in the sandbox, so the telemetry server thread fails too; either
			// failure must be reported as an init error. The subscription is held while 100 ms pass.
			r.subGate = make(chan struct{}, 1) // buffered: an implementation that gives the subscription up must not wedge the harness
			m := extension.VerifNew("lambda.invalid", runtimeAPI{r}, fx.Quiet(), failingServer{errors.New("bad configuration")}, flush.NewFlushCoordinator(), true)
			var err error
			done := false
			vsched.GoNamed("manager.Run", func() { err = m.Run(ctx); done = true })
			vsched.Quiesce("subscribing")
			vtime.Advance(mock, 100*time.Millisecond)
			vsched.Send(r.subGate, struct{}{})
			vsched.Quiesce("started")
			if !done {
				r.fail("manager-did-not-return", fmt.Sprintf("manager.Run is still running although the server failed during start-up; log %v", r.log))
			} else if err == nil {
				r.fail("start-up-error-swallowed", "manager.Run returned nil although the server failed")
			}
			return
		}
		if c.InitFail {
			serr := errors.New("bad configuration")
			switch c.InitErr {
			case 1:
				serr = fmt.Errorf("resolving the upstream: %w", context.DeadlineExceeded)
			case 2:
				serr = fmt.Errorf("loading credentials: %w", context.Canceled)
			}
			m := extension.VerifNew("lambda.invalid", runtimeAPI{r}, fx.Quiet(), failingServer{serr}, nil, false)
			var err error
			done := false
			vsched.GoNamed("manager.Run", func() { err = m.Run(ctx); done = true })
			vsched.Quiesce("started")
			if !done {
				r.fail("manager-did-not-return", "manager.Run is still running although the server failed during start-up")
			} else if err == nil {
				r.fail("start-up-error-swallowed", "manager.Run returned nil although the server failed")
			}
			return
		}
		fc := coord{flush.NewFlushCoordinator(), r}
		v := viper.New()
		pool := transport.NewTransportPool(fx.Quiet(), v)
		hc, _ := pool.Get("default")
		hc.Client.Transport = upstream{r}
		hc.Client.Timeout = 0
		h, err := statsd.NewHttpForwarderHandlerV2(fx.Quiet(), "default", "http://up.invalid", 1, 2, 1, false, "zlib", 0, c.Elapsed, time.Second, nil, nil, pool, fc)
		if err != nil {
			panic(err)
		}
		if c.Wired {
			// this harness is compiled into cmd/lambda-extension: NewServer is the command's own
			lv := viper.New()
			lv.Set(gostatsd.ParamLambdaExtensionManualFlush, true)
			lv.Set("http-transport", map[string]any{"api-endpoint": "http://up.invalid", "consolidator-slots": 1, "max-requests": 2, "concurrent-merge": 1, "compress": false,
				"max-request-elapsed-time": c.Elapsed, "flush-interval": time.Second, "dynamic-headers": []string{"region"}})
			srv := NewServer(lv, fx.Quiet())
			if srv.ForwarderFlushCoordinator == nil {
				panic("lambda-extension NewServer: manual flush requested, no flush coordinator")
			}
			fc = coord{srv.ForwarderFlushCoordinator, r}
			shc, _ := srv.TransportPool.Get("default")
			shc.Client.Transport = upstream{r}
			shc.Client.Timeout = 0
			h, err = statsd.NewHttpForwarderHandlerV2FromViper(fx.Quiet(), srv.Viper, srv.TransportPool, fc) // what Server.createForwarderSink does
			if err != nil {
				panic(err)
			}
		}
		r.fwd = h
		m := extension.VerifNew("lambda.invalid", runtimeAPI{r}, fx.Quiet(), fwdServer{h}, fc, true)
		if err := m.Register(ctx); err != nil {
			panic(err)
		}
		vsched.GoNamed("server.Run", func() { h.Run(ctx) })
		vsched.Quiesce("server-up")
		vsched.GoNamed("heartbeat", func() { m.Heartbeat(ctx) })
		telem := m.TelemetryHandler()
		post := func(body string) {
			telem.ServeHTTP(httptest.NewRecorder(), httptest.NewRequest("POST", "/telemetry", bytes.NewReader([]byte(body))))
		}
		vsched.GoNamed("platform", func() {
			if c.ExtraTelem {
				// a cold start: the platform reports the init phase before the first invocation (no runtime-done record among these)
				post(`[{"type":"platform.initStart"},{"type":"platform.initRuntimeDone"},{"type":"platform.initReport"}]`)
			}
			for k := 0; k < c.Invocations; k++ {
				vsched.Send(r.nextCh, fmt.Sprint("req", k)) // the extension has asked for the next event: invoke
				nb := 0
				if k < len(c.Batches) {
					nb = c.Batches[k]
				}
				for b := 0; b < nb; b++ {
					name := fmt.Sprintf("i%db%d", k, b)
					mm := gostatsd.NewMetricMap(false)
					var tags gostatsd.Tags
					if c.Wired {
						tags = gostatsd.Tags{[]string{"region:us", "region:eu"}[b%2]}
					}
					mm.Receive(&gostatsd.Metric{Name: name, Type: gostatsd.COUNTER, Value: 1, Rate: 1, Tags: tags, Timestamp: 5})
					if c.BadSet {
						mm.Receive(&gostatsd.Metric{Name: "ids", Type: gostatsd.SET, StringValue: "id\xff\xfe", Rate: 1, Timestamp: 5})
					}
					h.DispatchMetricMap(ctx, mm)
					r.event("accepted " + name)
					r.injected = append(r.injected, name)
				}
				if c.ExtraTelem {
					post(`[{"type":"platform.start"},{"type":"function"}]`)
					r.event(fmt.Sprintf("runtime-done#%d", k))
					post(`[{"type":"platform.report"},{"type":"platform.runtimeDone"},{"type":"platform.extension"}]`)
				} else {
					r.event(fmt.Sprintf("runtime-done#%d", k))
					post(`[{"type":"platform.runtimeDone"}]`)
				}
			}
			vsched.Send(r.nextCh, "SHUTDOWN")
		})
		// time passes only when nothing else can move (retry timers)
		for step := 0; step < 10; step++ {
			vsched.Quiesce("idle")
			if mock.Len() == 0 {
				break
			}
			vsched.ClockOp(true, "advance-next")
			mock.AddNext()
		}
		vsched.Quiesce("end")
	}
}

func check(c cfg, r *run, outcomes map[string]struct{}) func(*vsched.Exec, vsched.Outcome) (string, string) {
	return func(x *vsched.Exec, o vsched.Outcome) (string, string) {
		if o.Kind != "ok" {
			return o.Kind, o.Kind + ": " + o.Detail + "\n" + o.Stack
		}
		if r.viol != "" {
			return r.violKey, r.viol
		}
		if c.InitFail || c.TelemFail {
			if r.initErrs != 1 {
				return "init-error-not-reported", fmt.Sprintf("server failed during start-up: %d init/error requests (exit/error: %d); log %v", r.initErrs, r.exitErrs, r.log)
			}
			outcomes[c.String()+strings.Join(r.log, ";")] = struct{}{}
			return "", ""
		}
		if r.nextReqs != c.Invocations+1 {
			return "next-count", fmt.Sprintf("%d next-event requests for %d invocations + shutdown; log %v", r.nextReqs, c.Invocations, r.log)
		}
		for _, n := range r.injected {
			if !r.delivered[n] && r.attempted[n] == 0 {
				return "never-attempted", fmt.Sprintf("datapoint %s was never sent upstream; log %v", n, r.log)
			}
		}
		outcomes[c.String()+strings.Join(r.log, ";")] = struct{}{}
		if r.failsLeft < c.Failures {
			x.Note("upstream-failure")
		}
		return "", ""
	}
}

func configs() []cfg {
	cs := []cfg{
		{Invocations: 2, Batches: []int{1, 1}, Failures: 0, Elapsed: time.Second},
		{Invocations: 2, Batches: []int{2, 0}, Failures: 1, Elapsed: time.Second, ExtraTelem: true},
		{Invocations: 1, Batches: []int{1}, Failures: 3, Elapsed: time.Second},
		{Invocations: 2, Batches: []int{1, 1}, Failures: 1, Elapsed: -1},
		{Invocations: 2, Batches: []int{1, 1}, Failures: 1, Elapsed: time.Second, BadSet: true},
		{Invocations: 2, Batches: []int{2, 1}, Failures: 0, Elapsed: time.Second, Wired: true},
		{InitFail: true},
		{InitFail: true, SlowSub: true},
		{InitFail: true, InitErr: 1},
		{InitFail: true, InitErr: 2},
		{TelemFail: true},
		{Invocations: 2, Batches: []int{2, 1}, Failures: 2, Elapsed: time.Second, ExtraTelem: true},
		{Invocations: 3, Batches: []int{0, 1, 0}, Failures: 1, Elapsed: -1},
	}
	if vrt.Thorough() {
		cs = append(cs, cfg{Invocations: 3, Batches: []int{1, 2, 1}, Failures: 2, Elapsed: time.Second, ExtraTelem: true}, cfg{Invocations: 4, Batches: []int{2, 1, 2, 1}, Failures: 4, Elapsed: time.Second, ExtraTelem: true}, cfg{Invocations: 3, Batches: []int{2, 2, 2}, Failures: 6, Elapsed: 3 * time.Second})
	}
	return cs
}

type replay struct {
	Cfg     cfg
	Choices []vsched.TransKey
}

func main() {
	res := vrt.Init()
	if *vrt.ReplayPath != "" {
		var rp replay
		vrt.LoadReplay(&rp)
		r := &run{}
		o, key, msg, trace := vsched.Replay(vsched.Config{Body: body(rp.Cfg, r), Check: check(rp.Cfg, r, map[string]struct{}{})}, rp.Choices)
		fmt.Println(strings.Join(trace, "\n"))
		fmt.Printf("outcome=%s key=%s\n%s\n", o.Kind, key, msg)
		if msg != "" {
			fmt.Printf("VIOLATION property=C20 replay=%s\n", *vrt.ReplayPath)
			os.Exit(1)
		}
		return
	}
	outcomes := map[string]struct{}{}
	for i, c := range configs() {
		if vrt.Expired() {
			res.Exhaustive = false
			break
		}
		r := &run{}
		st := vsched.Explore(vsched.Config{Name: c.String(), Deadline: vrt.Deadline(), Shard: *vrt.Shard, NShards: *vrt.NShards, SplitLvl: 3,
			StatesOut: fmt.Sprintf("states_%d_%d.bin", i, *vrt.Shard), Body: body(c, r), Check: check(c, r, outcomes)})
		res.Evaluations += st.Executions
		res.Traces += st.Executions
		res.Transitions += st.Transitions
		res.States += st.States
		res.Counters["state_keys_seen_beyond_the_kept_set"] += st.StatesBeyondCap
		res.Counters["sleep_blocked"] += st.SleepBlocked
		for k, v := range st.Notes {
			res.Counters["note."+k] += v
		}
		for k, v := range st.Outcomes {
			res.Counters["outcome."+k] += v
		}
		if !st.Exhaustive {
			res.Exhaustive = false
		}
		res.Info[c.String()] = fmt.Sprintf("execs=%d exhaustive=%v", st.Executions, st.Exhaustive)
		for _, v := range st.Violations {
			res.Violate(v.Key+" "+c.String(), v.Msg+"\ntrace:\n"+strings.Join(v.Trace, "\n"), replay{c, v.Choices})
		}
		if i == 0 {
			for _, t := range st.SampleTraces {
				res.Sample(map[string]any{"config": c.String(), "schedule": t})
			}
		}
	}
	res.SetDistinctKeys(outcomes)
	res.Finish()
}
