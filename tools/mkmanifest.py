#!/usr/bin/env python3
"""Regenerates MANIFEST.json from tools/checks.json (claimed checks) + properties.jsonl."""
import json, os
V = os.path.dirname(os.path.dirname(os.path.abspath(__file__)))
props = [json.loads(l) for l in open(os.path.join(V, "properties.jsonl"))]
checks = json.load(open(os.path.join(V, "tools", "checks.json")))
m = {
 "version": 1,
 "setup_cmd": "./setup.sh",
 "hooks": {
  "guard": "verif",
  "enable": "no hook is committed to /repo: every check generates a build overlay (go build -tags verif -overlay) holding instrumented copies of the working tree's files, the scheduler shims under internal/verif/, and in-package files tagged `verif`",
  "baseline_off_cmd": "cd /repo && go test -mod=mod -vet=off -count=1 -timeout 25m ./...",
  "source_commits": [],
  "add_only": True,
 },
 "engines": [
  {"name": "sched", "path": "engine/vsched", "kind_free_text": "hand-written controlled scheduler for Go channels/select/sync + depth-first search with sleep sets over all interleavings and environment choices, by re-execution of the real code (instrumented by engine/vinstr)", "serves_properties": [c["id"] for c in checks if "sched" in c["engine"]]},
  {"name": "opseq", "path": "harness", "kind_free_text": "explicit-state search over operation sequences on fresh real objects with canonical state dumps", "serves_properties": [c["id"] for c in checks if "opseq" in c["engine"]]},
  {"name": "enum", "path": "harness", "kind_free_text": "bounded exhaustive enumeration of inputs/configurations against executable reference models", "serves_properties": [c["id"] for c in checks if "enum" in c["engine"]]},
 ],
 "checks": [],
 "not_applicable": [],
 "notes": "see DESIGN.md; ./vcheck <Cxx> --tier quick|thorough; ./vcheck replay <file>",
}
claimed = set()
for c in checks:
    claimed.add(c["id"])
    m["checks"].append({
     "property_id": c["id"],
     "quick_cmd": "./vcheck %s --tier quick" % c["id"],
     "thorough_cmd": "./vcheck %s --tier thorough" % c["id"],
     "evidence_file": "/verif/evidence/%s.json" % c["id"],
     "replay_cmd_template": "./vcheck replay {path}",
     "engine": c["engine"],
     "level_claimed": {"category": "model_checking", "text": c["text"], "design_ref": c.get("design_ref", "DESIGN.md section 7, " + c["id"])},
     "level_note": c["note"],
     "technique": c["technique"],
    })
for p in props:
    if p["id"] not in claimed:
        m["not_applicable"].append({"property_id": p["id"], "reason": "not claimed yet: its explorer is still under construction in this session (planned technique in DESIGN.md section 7)"})
json.dump(m, open(os.path.join(V, "MANIFEST.json"), "w"), indent=1)
print("claimed:", sorted(claimed))
