#!/usr/bin/env python3
"""Regenerates seeded/INDEX.md from the meta.json files."""
import json,glob,os,re
rows=[]
for f in sorted(glob.glob('/verif/seeded/*/meta.json')):
    sid=os.path.basename(os.path.dirname(f)); m=json.load(open(f))
    now="; ".join("%s %s"%(c,"DETECTED" if v["exit"]==1 else "silent") for c,v in m.get("checks_run_quick_tier",{}).items())
    rows.append((sid,m.get("needs_to_manifest","").replace("|","\\|"),m.get("first_run","").replace("|","\\|"),now,m.get("existing_suite_passes_with_patch")))
def rnd(s):
    return {"":1,"b":2,"c":3,"d":4,"e":5,"f":5,"g":6,"h":6,"i":7,"j":7,"k":8,"l":8,"m":9,"n":9,"o":10,"p":10,"q":11,"r":11,"s":12,"t":12}[s[3:]]
out=open('/verif/seeded/INDEX.md','w')
out.write("""# Independently written property-breaking changes (`seeded/<id>/`)

Each was written by a fresh sub-agent that was given only the text of one property and a scratch git
worktree of /repo (nothing from /verif). Every change compiles, passes the repository's existing test
suite (`go test . ./internal/... ./pkg/...`, the three CloudWatch tests that fail on the unchanged tree
excluded; a few timing-sensitive tests that fail spuriously on a busy machine were re-run alone, see
`suite_note` in `meta.json`) and comes with a demonstration (`demo_test.go`) that fails with the change
and passes without it; all of that was re-run here by `tools/seedcheck` (and `tools/suitecheck`) in a
scratch worktree before filing. `meta.json` records what was run and the first violation key the quick
tier printed on the patched tree.

Round 1 (`C01`…`C20`): one change per property, any kind of subtle defect. Round 2 (`C..b`): a defect that
manifests only under a particular interleaving / timing and is not a plain data race. Round 3 (`C..c`, twelve
properties) and round 4 (`C..d`, all twenty): a different mechanism, function and clause than every
change seeded before for that property (the earlier ideas were named to the sub-agent). Round 5 (`C..e`,
`C..f`: two independent changes per property from one sub-agent, forty in all): as round 4, with the
hint to read constructors, configuration parsing and the wiring between components as well. Round 6 (`C..g`,
`C..h`, forty): as round 5, at least one of each pair depending on timing, ordering or a failure at a particular moment.
Round 7 (`C..i`, `C..j`, forty): as round 6, one of each pair depending on timing / cancellation / a failure at a particular
moment and the other on an unusual input or combination of configuration options. For this round the `first run` column was
measured with the checks of the commit that preceded the round (8289a43), re-run against every patched tree, because several
checks were extended while the validation of the round was still running. Round 8 (`C..k`, `C..l`, forty): as round 7;
nothing was changed in /verif until every change of the round had been run against the checks as they stood (the sixteen
misses were run a second time on a quiet machine before they were believed). Round 9 (`C..m`, `C..n`, forty): as round 8; the
sub-agents were also asked to mention, without proving it, anything in the unchanged code they suspected of violating the
property (DESIGN section 8: D18-D25 came out of those remarks). Patches are filed as written, against the tree of their round:
five of them (C04e, C04h, C14d, C14k, C19i) touch lines a later `fix:` commit changed and do not apply to the current HEAD.
Round 10 (`C..o`, `C..p`, twenty changes for ten properties, same brief as round 9), run in the last hours: all eight misses were closed (the last one, C17o, by a slow but healthy peer of the relay in C17).
Round 11 (`C..q`, `C..r`, seventeen changes for the other ten properties - three sub-agents delivered one change only -, same brief):
nine detected by the checks as they stood, all eight misses closed afterwards; in the same session C11b was closed in the quick
tier and C16n by running the relay's own tcp/tls connection factories against a real loopback peer.
Round 12 (`C..s`, `C..t`, twelve changes for C03 C05 C09 C12 C14 C15, same brief, in the last half hour): eight detected as the
checks stood, two of the four misses closed (C05t, C09s); C03s and C12t are recorded as gaps.

`silent` marks a check that was run in addition and is not expected to fire (the clause the change
breaks is decided by the other check listed), or - for C11b until round 11 - the quick tier.

""")
for r in (1,2,3,4,5,6,7,8,9,10,11,12):
    out.write("## Round %d\n\n| id | what it needs to manifest | first run | now (quick tier) |\n|---|---|---|---|\n"%r)
    for sid,needs,first,now,suite in rows:
        if rnd(sid)==r:
            out.write("| %s | %s | %s | %s |\n"%(sid,needs,first,now))
    out.write("\n")
tot={r:[0,0] for r in (1,2,3,4,5,6,7,8,9,10,11,12)}
for sid,needs,first,now,suite in rows:
    tot[rnd(sid)][0]+=1
    if first.startswith("DETECTED"): tot[rnd(sid)][1]+=1
out.write("Detected by the checks as they stood / changes: "+", ".join("round %d: %d/%d"%(r,tot[r][1],tot[r][0]) for r in tot)+". Every miss led to a stronger check (see the `first run` column and DESIGN.md section 13); all are detected now by the quick tier except C04m (manifests only during shutdown, outside the properties) and two of the last round that were not closed in the time left: C03s (a stalled raw-metric logger wedging the parser after a thousand batches) and C12t (idle period shorter than the refresh period).\n")
