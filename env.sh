# sourced by every script: offline Go 1.26.8 toolchain
export PATH=/opt/veriftools/go1.26.8/bin:$PATH
export GOTOOLCHAIN=local GOFLAGS=-mod=mod GOPROXY=off GOSUMDB=off
export VERIF_REPO=${VERIF_REPO:-/repo}
export GOCACHE=${GOCACHE:-/root/.cache/go-build}
