//go:build verif

package cloudwatch

import (
	"github.com/sirupsen/logrus"

	"github.com/atlassian/gostatsd"
)

// VerifNewClient builds the backend around a fake CloudWatch API client (the real constructor needs
// AWS configuration that is not available offline).
func VerifNewClient(api CloudwatchClient, namespace string, disabled gostatsd.TimerSubtypes, logger logrus.FieldLogger) *Client {
	return &Client{logger: logger, cloudwatch: api, namespace: namespace, disabledSubtypes: disabled}
}
