//go:build verif

package cloudprovider

import "github.com/atlassian/gostatsd"

// VerifEntry is a read-only view of one cache entry.
type VerifEntry struct {
	Instance   *gostatsd.Instance
	Expires    int64
	LastAccess int64
}

// VerifDump copies the private cache and the two absolute gauges (positive, negative). It must be
// called while the Run goroutine is not mutating the cache (from its own context or at quiescence).
func (ccp *CachedCloudProvider) VerifDump() (map[gostatsd.Source]VerifEntry, uint64, uint64) {
	out := map[gostatsd.Source]VerifEntry{}
	for ip, h := range ccp.cache {
		out[ip] = VerifEntry{Instance: h.instance, Expires: h.expires.UnixNano(), LastAccess: h.lastAccess()}
	}
	return out, ccp.statsCachePositive, ccp.statsCacheNegative
}
