//go:build verif

package stdout

import (
	"bytes"

	"github.com/atlassian/gostatsd"
)

// VerifPreparePayload exposes the payload builder (the real backend writes it through logrus).
func VerifPreparePayload(mm *gostatsd.MetricMap, disabled *gostatsd.TimerSubtypes) *bytes.Buffer {
	return preparePayload(mm, disabled)
}
