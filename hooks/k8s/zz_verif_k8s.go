//go:build verif

package k8s

import (
	"fmt"
	"sort"
	"strings"

	"k8s.io/client-go/tools/cache"
)

// VerifIndexer returns the pod informer's indexer so a harness can apply pod histories the way the
// shared informer does (store update first, then the registered handler).
func (p *Provider) VerifIndexer() cache.Indexer { return p.podsInf.GetIndexer() }

// VerifHandler returns the handler NewProvider registered on the informer.
func (p *Provider) VerifHandler() cache.ResourceEventHandler { return cacheInvalidationHandler{p: p} }

// VerifCacheDump renders the memoised lookups canonically (read-only).
func (p *Provider) VerifCacheDump() string {
	p.rw.RLock()
	defer p.rw.RUnlock()
	var ks []string
	for ip, inst := range p.cache {
		if inst == nil {
			continue // a memoised nil is treated as a miss by instanceFromCache
		}
		t := append([]string{}, inst.Tags...)
		sort.Strings(t)
		ks = append(ks, fmt.Sprintf("%s=%s%v", ip, inst.ID, t))
	}
	sort.Strings(ks)
	return strings.Join(ks, ";")
}
