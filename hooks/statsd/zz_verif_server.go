//go:build verif

package statsd

import (
	"github.com/atlassian/gostatsd"
)

// VerifStandaloneSink runs the server's own wiring of the standalone pipeline tail (aggregator factory,
// backend handler, flusher) for the given Server value.
func VerifStandaloneSink(s *Server) (gostatsd.PipelineHandler, []gostatsd.Runnable, error) {
	return s.createStandaloneSink()
}

// VerifAggregators returns the aggregators a BackendHandler created through its factory, by worker id.
func VerifAggregators(h gostatsd.PipelineHandler) []*MetricAggregator {
	bh := h.(*BackendHandler)
	out := make([]*MetricAggregator, len(bh.workers))
	for id, w := range bh.workers {
		out[id] = w.aggr.(*MetricAggregator)
	}
	return out
}

// VerifWiredAggregator builds one aggregator exactly as a standalone server with these settings does.
func VerifWiredAggregator(s Server) *MetricAggregator {
	s.MaxWorkers, s.MaxQueueSize, s.MaxConcurrentEvents = 1, 1, 1
	h, _, err := s.createStandaloneSink()
	if err != nil {
		panic(err)
	}
	return VerifAggregators(h)[0]
}
