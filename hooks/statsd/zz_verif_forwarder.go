//go:build verif

package statsd

import (
	"github.com/atlassian/gostatsd"
	"github.com/atlassian/gostatsd/pb"
)

// VerifTranslate exposes the forwarder's protobuf translation (used to build valid bodies).
func VerifTranslate(mm *gostatsd.MetricMap) *pb.RawMessageV2 { return translateToProtobufV2(mm) }

// VerifCounters returns the forwarder's message counters: invalid, created, sent, retried, dropped.
func (hfh *HttpForwarderHandlerV2) VerifCounters() [5]uint64 {
	return [5]uint64{hfh.messagesInvalid, hfh.messagesCreated, hfh.messagesSent, hfh.messagesRetried, hfh.messagesDropped}
}

// VerifSemaphores returns free tokens and capacity of the request and merge semaphores.
func (hfh *HttpForwarderHandlerV2) VerifSemaphores() (reqFree, reqCap, mergeFree, mergeCap int) {
	return len(hfh.metricsSem), cap(hfh.metricsSem), len(hfh.metricsMergingSem), cap(hfh.metricsMergingSem)
}
