//go:build verif

package statsd

import (
	"time"

	"github.com/atlassian/gostatsd"
)

// VerifSetNow replaces the aggregator's time source (read by Reset).
func (a *MetricAggregator) VerifSetNow(f func() time.Time) { a.now = f }

// VerifMap gives read access to the aggregate between flushes.
func (a *MetricAggregator) VerifMap() *gostatsd.MetricMap { return a.metricMap }
