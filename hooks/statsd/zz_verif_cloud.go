//go:build verif

package statsd

// VerifQueued returns the true numbers of sources with parked metrics, sources with parked events and
// parked events, read from the handler's private queues (call from the Run goroutine's context only,
// e.g. from inside a Statser.Gauge call made by emit).
func (ch *CloudHandler) VerifQueued() (metricHosts, eventHosts, eventItems int) {
	metricHosts = len(ch.awaitingMetrics)
	for _, evs := range ch.awaitingEvents {
		if len(evs) > 0 {
			eventHosts++
			eventItems += len(evs)
		}
	}
	return
}
