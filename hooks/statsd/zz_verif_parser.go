//go:build verif

package statsd

import (
	"context"
	"sync/atomic"

	"github.com/atlassian/gostatsd"
	"github.com/atlassian/gostatsd/internal/lexer"
)

// VerifCounters exposes the parser's counters (read-only) to the verification harnesses.
func (dp *DatagramParser) VerifCounters() (metrics, events, badLines uint64) {
	return atomic.LoadUint64(&dp.metricsReceived), atomic.LoadUint64(&dp.eventsReceived), atomic.LoadUint64(&dp.badLines.Cur)
}

// VerifLineTags parses one datagram with handleDatagram (the parser's own per-datagram step, before the
// metrics are merged into a map, which sorts their tags) and returns, per metric, its tags in order and its source.
func (dp *DatagramParser) VerifLineTags(ip gostatsd.Source, msg []byte) (tags [][]string, sources []string) {
	l := &lexer.Lexer{MetricPool: dp.metricPool}
	ms, _, _ := dp.handleDatagram(context.Background(), l, 0, ip, msg)
	for _, m := range ms {
		tags = append(tags, append([]string{}, m.Tags...))
		sources = append(sources, string(m.Source))
	}
	return
}
