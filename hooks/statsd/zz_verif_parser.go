//go:build verif

package statsd

import "sync/atomic"

// VerifCounters exposes the parser's counters (read-only) to the verification harnesses.
func (dp *DatagramParser) VerifCounters() (metrics, events, badLines uint64) {
	return atomic.LoadUint64(&dp.metricsReceived), atomic.LoadUint64(&dp.eventsReceived), atomic.LoadUint64(&dp.badLines.Cur)
}
