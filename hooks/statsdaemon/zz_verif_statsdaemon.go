//go:build verif

package statsdaemon

import "github.com/atlassian/gostatsd/pkg/backends/sender"

// VerifSetConnFactory replaces the dialer of the backend's sender (harness fakes the network).
func (client *Client) VerifSetConnFactory(f sender.ConnFactory) { client.sender.ConnFactory = f }
