//go:build verif

package extension

import (
	"context"
	"net/http"

	"github.com/sirupsen/logrus"

	"github.com/atlassian/gostatsd/internal/flush"
)

// VerifManager gives a verification harness access to the extension manager's loops with a fake
// Lambda runtime API transport (the exported constructor hard-wires the default HTTP transport).
type VerifManager struct{ m *manager }

func VerifNew(domain string, rt http.RoundTripper, log logrus.FieldLogger, server Server, fc flush.Coordinator, manualFlush bool) *VerifManager {
	var opts []ManagerOpt
	if manualFlush {
		opts = append(opts, WithManualFlushEnabled(fc, "sandbox.invalid:8083"))
	}
	m := NewManager(domain, "gostatsd", log, server, opts...).(*manager)
	m.client = &http.Client{Transport: rt}
	return &VerifManager{m}
}

// Register performs the registration call (sets the extension id used by later calls).
func (v *VerifManager) Register(ctx context.Context) error { return v.m.register(ctx) }

// Heartbeat runs the per-invocation loop (initial flush, wait for flush, request next event).
func (v *VerifManager) Heartbeat(ctx context.Context) error { return v.m.heartbeat(ctx) }

// Run runs the whole manager (only usable with manualFlush=false: the telemetry listener is real).
func (v *VerifManager) Run(ctx context.Context) error { return v.m.Run(ctx) }

// TelemetryHandler returns the handler the telemetry listener would serve.
func (v *VerifManager) TelemetryHandler() http.Handler { return v.m.telemetryServer.VerifHandler() }
