//go:build verif

package telemetry

import "net/http"

// VerifHandler returns the HTTP handler of the telemetry server without opening a listener.
func (s *Server) VerifHandler() http.Handler { return s.httpServer.Handler }
