#!/bin/bash
# built out below
exit 0
