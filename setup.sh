#!/bin/bash
# Builds the framework offline from files on disk: the instrumenter, and a warm Go build cache.
set -e
cd "$(dirname "$0")"
. ./env.sh
mkdir -p bin evidence replays .work
(cd engine/vinstr && go build -o ../../bin/vinstr .)
# warm the build cache (repository packages + harness dependencies)
(cd "$VERIF_REPO" && go build ./... >/dev/null 2>&1 || true)
# ... and the race-instrumented standard library / repository packages used by the -race side pass
(cd "$VERIF_REPO" && go build -race ./... >/dev/null 2>&1 || true)
./vcheck build selftest >/dev/null
.work/build-selftest/selftest.bin > .work/selftest.out
grep -q "rendezvous nosleep=false execs=4 " .work/selftest.out || { echo "scheduler selftest failed"; cat .work/selftest.out; exit 1; }
rm -rf .work/build-selftest
# behaviour preservation of the instrumenter (informational here; prints its own verdict)
tools/selfcheck-instr 2>&1 | tail -1 || true
echo "setup ok"
